"""Per-property check plans: which scenarios run on which build flavour, how
many histories, the coverage floor and the wording that goes into evidence."""

SIMK_ASSUMPTIONS = [
    "simk (the in-process simulated kernel in /verif/harness/src/simk) behaves like a real io_uring kernel for the behaviours listed in DESIGN.md section 2.2",
    "the five cfg(a10_verif) hook points forward to simk without changing a10's behaviour",
    "only the executions produced by the seeded generators are judged",
]


def gen_job(scenario, flavour, iters, shards, **kw):
    j = dict(scenario=scenario, flavour=flavour, iters=iters, shards=shards)
    j.update(kw)
    return j


def explorer_plan(scenario, tier, quick_iters, thorough_iters, rule, floor_cells, level="exploration", extra_thorough=None, extra_quick=None, also=None):
    if tier == "quick":
        jobs = [gen_job(scenario, "native-debug", 2 * quick_iters, 16)]
        jobs += extra_quick or []
    else:
        jobs = [
            gen_job(scenario, "native-debug", thorough_iters, 16),
            gen_job(scenario, "native-release", thorough_iters, 16),
        ]
        jobs += extra_thorough or []
    return dict(jobs=jobs, level=level, rule=rule, floor_cells=floor_cells, floor_evaluations=quick_iters, assumptions=SIMK_ASSUMPTIONS, also=also or [])


GEN_RULE = (
    "random single-threaded histories over the real a10 on the simulated kernel: interleavings of "
    "{create op, poll, re-poll same/new waker, drop, Ring::poll, drop results} with {post first/next/last "
    "completion with ok/short/errno/EINTR/ECANCELED, cancel wins/loses/already, bookkeeping CQEs}; a history is "
    "non-trivial if it has >= 2 operations and >= 2 scripted completions; distinct = distinct event-trace hash"
)


def plan(prop, tier):
    if prop == "C01":
        return explorer_plan(
            "c01", tier, 2500, 120000, GEN_RULE + "; C01 oracle: allocator monitor x kernel-held region registry, quarantine poison check, stack-memory check; plus realmix: the same kind of poll/drop/teardown histories on the REAL io_uring of this machine (pipes and socket pairs, the harness writing to the other end decides when reads complete), every freed block quarantined with a poison pattern that a late kernel write would change; plus c06mt: futures dropped on worker threads while the ring thread consumes their completions, every third schedule with the Ring dropped while the workers still poll (its sync-cancel interrupts them, they re-issue, the Ring's last kernel entries hand that to the kernel)",
            ["drop:Single:in-flight", "drop:Multi:in-flight", ["drop:TwoStep:in-flight", "drop:TwoStep:between-two-completions"], "cqe:for-dropped-op", "simk_kernel_mem_writes", "simk_kernel_mem_reads", "mt-drop:workers=2", "mt-drop:ring-dropped-early"],
            extra_quick=[gen_job("c06mt", "native-debug", 500, 8, timeout=400), gen_job("realmix", "native-debug", 1000, 8, timeout=600)],
            extra_thorough=[gen_job("c01", "asan", 3000, 16, timeout=1200), gen_job("c01", "miri", 12, 16, timeout=1500), gen_job("realmix", "native-debug", 30000, 16, timeout=3000), gen_job("realmix", "native-release", 30000, 16, timeout=3000), gen_job("realmix", "asan", 5000, 16, timeout=3000),
                            gen_job("c06mt", "native-debug", 8000, 16, timeout=1800), gen_job("c06mt", "asan", 500, 16, timeout=1800), gen_job("c06free", "tsan", 60, 8, timeout=3000), gen_job("c06free", "miri", 6, 16, timeout=3000)],
        )
    if prop == "C02":
        return explorer_plan(
            "c02", tier, 2500, 250000, GEN_RULE + "; C02 oracle: per-op sequential model keyed by submission id (unique results, keyed read payloads)",
            ["resolved:Single", "resolved:Multi", "resolved:TwoStep", "cqe:multishot-item", "cqe:zc-result", "cqe:notif"],
            extra_thorough=[gen_job("c02", "miri", 10, 16, timeout=1500)],
        )
    if prop == "C03":
        return explorer_plan(
            "c03", tier, 2500, 250000, GEN_RULE + "; C03 oracle: waker ledger at quiescent points + strict executor (re-polls only woken ops) + bounded queue-space progress; plus the multi-threaded schedules of scenario c04 (2-4 submitter threads each running a strict executor - poll, then block until the waker fired - while the ring thread polls; a thread still blocked once the queue is empty and nothing is in flight is a lost wake-up) and the same on the real kernel (scenario c04real: a thread still waiting for a write whose token has arrived at the other end of the pipe)",
            ["repoll:new-waker", "repoll:same-waker", "resolved:Single", "resolved:Multi", "ops_resolved"],
            extra_quick=[gen_job("c04", "native-debug", 40, 8, timeout=400), gen_job("c04real", "native-debug", 60, 8, timeout=600)],
            extra_thorough=[gen_job("c04", "native-debug", 1500, 16, timeout=3000), gen_job("c04", "native-release", 1500, 16, timeout=3000), gen_job("c04real", "native-debug", 3000, 16, timeout=3000), gen_job("c04real", "native-release", 3000, 16, timeout=3000)],
        )
    if prop == "C05":
        return explorer_plan(
            "c05", tier, 2500, 300000, GEN_RULE + "; C05 oracle: trap entries in unpublished/returned CQ slots, head monotonicity, injected bookkeeping/F_SKIP completions with recognisable results, counters started near 2^32 and 2^31",
            ["bookkeeping:ud=0:skip=true", "bookkeeping:ud=1:skip=false", "bookkeeping:ud=2:skip=false", "bookkeeping:ud=9:skip=true", "simk_trap_entries_written", "simk_cqes_backlogged"],
        )
    if prop == "C06":
        return explorer_plan(
            "c06", tier, 2500, 120000, GEN_RULE + "; C06 oracle: cancel requests vs drops (target, count, room), allocator exactly-once and leak ledger after teardown; plus realmix: histories on the real kernel with the leak ledger after all objects were dropped in a random order; plus c06mt: baton-scheduled worker threads dropping in-flight futures while the ring thread consumes their completions (leak/double-free ledger over the whole schedule)",
            ["drop:Single:in-flight", "drop:Single:never-polled", "drop:Single:finished", "drop:Multi:multishot-mid-stream", ["drop:TwoStep:between-two-completions", "drop:TwoStep:in-flight"], "drop:Single:queued-not-consumed", "simk_cancels", "mt-drop:workers=2", "mt-drop:workers=3", "mt-drop:ring-dropped-early"],
            extra_quick=[gen_job("c06mt", "native-debug", 500, 8, timeout=400), gen_job("c06free", "miri", 2, 4, timeout=900), gen_job("realmix", "native-debug", 1000, 8, timeout=600), gen_job("realmixsq", "native-debug", 150, 8, timeout=600)],
            extra_thorough=[gen_job("c06", "asan", 3000, 16, timeout=1200, lsan=True), gen_job("realmix", "native-debug", 30000, 16, timeout=3000), gen_job("realmix", "native-release", 30000, 16, timeout=3000),
                            gen_job("c06mt", "native-debug", 8000, 16, timeout=1800), gen_job("c06mt", "asan", 500, 16, timeout=1800), gen_job("c06free", "tsan", 60, 8, timeout=3000), gen_job("c06free", "miri", 6, 16, timeout=3000)],
        )
    if prop == "C09":
        return explorer_plan(
            "c09", tier, 2500, 300000, GEN_RULE + "; C09 oracle: byte-for-byte comparison of re-issued submissions, caller never observes EINTR/ECANCELED, result equals last attempt",
            ["cqe:interrupt", "interrupted_attempts", "resolved:Single", "resolved:Multi"],
            level="exploration",
        )
    if prop == "C04":
        rule = ("(a) single-threaded sweep: queue sizes 1,2,4,8 x counters started at 0, 2^31-2..2^31 and 2^32-k for every k<=2*size+1, and sizes 16,64,1024,4096 x the boundary values k in {0,1,2,size-1,size,size+1,2size-1,2size,2size+1,3size}, 3*size+3 reads each; "
                "(b) baton-scheduler schedules: 2-4 submitter threads + ring thread (+ simulated SQPOLL kernel thread) on 1-8 entry queues, kernel consuming/completing at every entry, "
                "seeded random-walk and PCT schedules switching at the a10_verif scheduling points; non-trivial = at least 2 context switches; distinct = hash of the switch sequence + configuration; "
                "(c) real kernel (scenario c04real): 2-4 free-running threads write uniquely tagged 16-byte tokens through one 1-8 entry queue into a pipe while the ring thread polls; a reader on the other end must see every token exactly once, unmodified")
        if tier == "quick":
            jobs = [gen_job("c04", "native-debug", 100, 16, timeout=400), gen_job("c04free", "tsan", 8, 4, timeout=600), gen_job("c04real", "native-debug", 60, 8, timeout=600)]
        else:
            jobs = [gen_job("c04", "native-debug", 2500, 16, timeout=3000), gen_job("c04", "native-release", 2500, 16, timeout=3000),
                    gen_job("c04", "asan", 300, 16, timeout=3000), gen_job("c04free", "tsan", 40, 8, timeout=3000), gen_job("c04free", "miri", 5, 16, timeout=3000),
                    gen_job("c04real", "native-debug", 3000, 16, timeout=3000), gen_job("c04real", "native-release", 3000, 16, timeout=3000), gen_job("c04real", "tsan", 300, 8, timeout=3000)]
        return dict(jobs=jobs, level="exploration", rule=rule, floor_cells=["wrap-sweep:size=1", "wrap-sweep:size=8", "wrap-sweep:size=4096", "real_tokens_received", "sq=1", "sq=2", "start=near-2^32", "submitters=2", "sqpoll=true", "sched_switches"],
                    floor_evaluations=500, assumptions=SIMK_ASSUMPTIONS + ["the scheduler only switches threads at the hook points: interleavings inside other instruction sequences and weak-memory effects are left to the free-running jobs under ThreadSanitizer and under Miri (its own scheduler, data-race detector and weak-memory emulation, a different -Zmiri-seed per shard)"], also=[])
    if prop == "C14":
        rule = ("pure calls on every provided Buf/BufMut/BufSlice/BufMutSlice implementation and wrapper: Vec capacities 0..12 x fill levels x n exhaustively, random larger ones, "
                "arrays and tuples of arity 1..8, limits {0,1,cap-1,cap,cap+1,2^32-1,2^32,2^32+5,2^40,usize::MAX}, nested limits; oracle = pointer bounds of the vector + Vec<u8> model; distinct = distinct (type, geometry, n, limit) tuples")
        if tier == "quick":
            jobs = [gen_job("c14", "native-debug", 60, 8), gen_job("c14", "miri", 1, 2, timeout=900)]
        else:
            jobs = [gen_job("c14", "native-debug", 3000, 16, timeout=1800), gen_job("c14", "native-release", 3000, 16, timeout=1800), gen_job("c14", "miri", 4, 16, timeout=2400)]
        return dict(jobs=jobs, level="exploration", rule=rule, floor_cells=["class:BufMut:Vec", "class:BufMut:LimitedBuf<Vec>", "class:BufMutSlice:array8", "class:BufMutSlice:tuple8", "class:BufSlice:limited-array8", "class:Buf:LimitedBuf", "class:Buf:all-types"],
                    floor_evaluations=1000, assumptions=["IoSlice/IoMutSlice have the layout of struct iovec (a10 hands arrays of them to the kernel as iovecs)", "only the listed buffer types are covered; ReadBuf is covered by C15"], also=[])
    if prop == "C10":
        rule = ("byte-sink/byte-source model on the simulated kernel: (a) exhaustive: every composition of totals 1..6 into short transfers for write_all/send_all/read_n/recv_n and every split of the total over 2-3 buffers (empty buffers in every position) for the vectored variants; "
                "(b) random shapes: 1..8 buffers, lengths 0..300 and >64KiB, zero transfers, injected errors, offsets {cursor,0,1,2^32-1,2^40}, random flag subsets, zero-copy, extract variants; every continuation request is checked (opcode, fd, offset, flags, exactly the unwritten bytes); distinct = distinct shape descriptions; non-trivial = at least 2 requests")
        if tier == "quick":
            jobs = [gen_job("c10", "native-debug", 1500, 8), gen_job("c10", "native-release", 1500, 4)]
        else:
            jobs = [gen_job("c10", "native-debug", 60000, 16, timeout=1800), gen_job("c10", "native-release", 60000, 16, timeout=1800), gen_job("c10", "asan", 3000, 16, timeout=1800), gen_job("c10", "miri", 6, 16, timeout=2400, params={"noexhaustive": "1"})]
        return dict(jobs=jobs, level="exploration", rule=rule, floor_cells=["family:write_all", "family:write_all_vectored", "family:send_all", "family:send_all_vectored", "family:read_n", "family:read_n_vectored", "family:recv_n", "family:recv_n_vectored", "empty-buffer:trailing", "empty-buffer:leading", "empty-buffer:middle", "zero-transfer", "zero-copy", "positional", "buffers:8", "exhaustive_small_shapes"],
                    floor_evaluations=3000, assumptions=SIMK_ASSUMPTIONS, also=[])
    if prop == "C15":
        rule = ("a ReadBuf filled by a simulated pool read (buffer sizes 1..512, fill 0..size, pools of 1-8 buffers) receives 1-12 random edit calls {truncate, clear, remove with all bound forms incl. usize::MAX, set_len, extend_from_slice, spare_capacity_mut+set_len} and optionally a re-read into its spare capacity; "
                "oracle = Vec<u8> with fixed capacity (panics compared with Vec::drain's), canary bytes in every other slot (writes outside the slot), a second pass of the same edits with different bytes in the other slots and the whole slot compared after every edit (reads outside the slot show as a difference), the (addr,bid) written to the buffer ring at release; both debug and release profiles; distinct = distinct edit sequences")
        if tier == "quick":
            jobs = [gen_job("c15", "native-debug", 4000, 8), gen_job("c15", "native-release", 4000, 8)]
        else:
            jobs = [gen_job("c15", "native-debug", 150000, 16, timeout=1800), gen_job("c15", "native-release", 150000, 16, timeout=1800), gen_job("c15", "asan", 5000, 16, timeout=1800), gen_job("c15", "miri", 8, 16, timeout=2400)]
        return dict(jobs=jobs, level="exploration", rule=rule, floor_cells=["edit:remove", "edit:truncate", "edit:clear", "edit:set_len", "edit:extend", "edit:spare+set_len", "edit:reread", "native-release/c15"],
                    floor_evaluations=5000, assumptions=SIMK_ASSUMPTIONS, also=["C08"])
    if prop == "C07":
        return explorer_plan(
            "c07", tier, 2500, 100000, GEN_RULE + "; restricted to descriptor-creating operations (open/socket/accept/multishot accept on regular and on direct-descriptor listeners/pipe/to_direct/to_file, regular and direct), AsyncFd::close, standard-stream handles, 1-4 entry queues so that the synchronous close fallback runs; C07 oracle: descriptor ledger fed by the close(2) interposer, IORING_OP_CLOSE, files-update and the creating completions; direct indices live in 3000.. so that a descriptor closed as the wrong kind is unmistakable; plus realmix on the real kernel: socket/pipe/to_direct operations (regular and direct) driven to completion, new pipes must carry bytes, descriptors dropped or closed explicitly at random, the process' descriptor count before/after each history and re-allocation of the whole direct table once every direct descriptor was dropped",
            ["stdio-handle-dropped", "kind:SocketDirect", "kind:PipeDirect", "kind:Close", "kind:MultishotAccept", "kind:AcceptDirect", "kind:MultishotAcceptDirect", "drop:Single:in-flight", "drop:Single:completion-posted-not-consumed", "drop:Single:done-not-collected", "simk_closes", "real_descriptor_ops"],
            extra_quick=[gen_job("realmix", "native-debug", 1000, 8, timeout=600), gen_job("realmixsq", "native-debug", 150, 8, timeout=600)],
            extra_thorough=[gen_job("realmix", "native-debug", 30000, 16, timeout=3000), gen_job("realmix", "native-release", 30000, 16, timeout=3000), gen_job("realmixsq", "native-debug", 4000, 16, timeout=3000)],
        )
    if prop == "C12":
        import math
        total = 63360
        rule = ("enumeration of every drop order of 4 object sets (6-7 objects each: Ring, queue clones, regular/direct AsyncFd, never-polled/queued/in-flight/finished/multishot operations, ReadBufPool, ReadBuf) x {final sync-cancel cancels everything, one request completes normally first, completion queue already overflowing with wake-up completions when the drops start, submission queue full of unsubmitted entries at every drop}; "
                "orders that safe Rust cannot express (descriptor before an operation borrowing it) are skipped; ledgers: mapping, descriptor, allocation (tracking allocator), kernel tables (in-flight requests, buffer-ring registrations); distinct = distinct (set, order, mode); plus sampled histories on the real kernel (scenario realmix) torn down in random order")
        shards = 8 if tier == "quick" else 16
        jobs = [gen_job("c12", "native-debug", math.ceil(total / shards), shards, timeout=900)]
        if tier != "quick":
            jobs += [gen_job("c12", "native-release", math.ceil(total / 16), 16, timeout=900), gen_job("c12", "asan", math.ceil(total / 16), 16, timeout=1800, lsan=False), gen_job("c12", "miri", 12, 16, timeout=2400)]
        # Corroboration on the real kernel (sampled, does not count towards the enumeration).
        jobs += [gen_job("realmix", "native-debug", 1000 if tier == "quick" else 30000, 8 if tier == "quick" else 16, timeout=3000, aux=True),
                 gen_job("realmixsq", "native-debug", 150 if tier == "quick" else 4000, 8 if tier == "quick" else 16, timeout=3000, aux=True)]
        return dict(jobs=jobs, level="fault_enumeration", rule=rule, floor_cells=["set:0", "set:1", "set:2", "set:3", "ring-position:0", "ring-position:6", "sync-cancel-mode:1", "sync-cancel-mode:2", "sync-cancel-mode:3", "first:ReadBuf", "first:Pool", "real_ops_dropped_in_flight"],
                    floor_evaluations=20000, exhaustive=True, assumptions=SIMK_ASSUMPTIONS + ["the realmix job (random histories and teardown orders on the real io_uring of this machine with the leak ledger, the quarantine poison check and the descriptor count) is sampled corroboration, not part of the enumeration"], also=[])
    if prop == "C18":
        import math
        total = 69300
        rule = ("enumeration of 6300 configurations (queue sizes 1,2,3,8,32768,65536,max,0 x completion sizes x kernel thread/affinity/idle x single issuer/defer-taskrun x disabled x attach x direct descriptors) x 11 kernel answers "
                "(success, 2 setup errnos, each of the 4 required feature bits withheld, 1st/2nd/3rd mapping refused, registration refused); ledgers before/after, parameter block decoded with the independent ABI table, working-ring round trip across the index wrap with seeded ring offsets; distinct = distinct (configuration, answer)")
        shards = 8 if tier == "quick" else 16
        jobs = [gen_job("c18", "native-debug", math.ceil(total / shards), shards, timeout=900)]
        if tier != "quick":
            jobs += [gen_job("c18", "native-release", math.ceil(total / 16), 16, timeout=900), gen_job("c18", "asan", math.ceil(total / 16), 16, timeout=1800), gen_job("c18", "miri", 25, 16, timeout=2400)]
        return dict(jobs=jobs, level="fault_enumeration", rule=rule, floor_cells=["refuse:none", "refuse:setup", "refuse:feature-2", "refuse:feature-4", "refuse:feature-8", "refuse:feature-128", "refuse:mmap-1", "refuse:mmap-2", "refuse:mmap-3", "refuse:register", "result:ok", "result:err", "disabled-then-enabled", "granted-sq:4"],
                    floor_evaluations=60000, exhaustive=True, assumptions=SIMK_ASSUMPTIONS + ["the madvise(MADV_DONTFORK) failure branch of the real mmap wrapper is bypassed by the hook and not covered"], also=[])
    if prop == "C08":
        rule = ("(a) random single-threaded histories with single-shot and multishot pool reads/receives, kept/edited (remove/truncate/clear/extend before release)/re-used for another read (also after being emptied)/dropped ReadBufs, operations abandoned in flight (pools of 1-8 buffers): pool ledger in the simulated kernel (every buffer-ring entry a10 publishes is checked: id handed out, own address/length, tail-head <= size), checksums of held ReadBufs, conservation at the end; "
                "(b) marathon of 70000 read/release cycles so the 16-bit ring tail wraps; (d) real kernel (realmix): after a history in which no pool operation was abandoned, with no ReadBuf alive, as many pool reads as the pool has buffers must all succeed; (c) baton-scheduler schedules: 2-4 threads releasing all buffers of a pool concurrently while a simulated kernel thread audits the ring at every scheduling point (incl. before the tail store); distinct = event-trace / switch-sequence hash")
        if tier == "quick":
            jobs = [gen_job("c08", "native-debug", 2500, 8), gen_job("c08wrap", "native-debug", 1, 2, timeout=600), gen_job("c08mt", "native-debug", 400, 8, timeout=600), gen_job("realmix", "native-debug", 1000, 8, timeout=600)]
        else:
            jobs = [gen_job("c08", "native-debug", 40000, 16, timeout=1800), gen_job("c08", "native-release", 40000, 16, timeout=1800), gen_job("c08wrap", "native-release", 2, 8, timeout=1800, params={"cycles": "200000"}),
                    gen_job("c08mt", "native-debug", 6000, 16, timeout=3000), gen_job("c08", "asan", 3000, 16, timeout=1800), gen_job("c08", "miri", 10, 16, timeout=2400), gen_job("c08free", "tsan", 30, 8, timeout=3000), gen_job("c08free", "miri", 3, 16, timeout=3000), gen_job("realmix", "native-debug", 30000, 16, timeout=3000)]
        return dict(jobs=jobs, level="exploration", rule=rule, floor_cells=["kind:ReadPool", "kind:ReadPoolReuse", "real-pool:refilled-completely", "kind:MultishotRead", "kind:MultishotRecv", "simk_pbuf_selects", "simk_pbuf_returns", "marathon_tail_wraps", "release:pool=1", "release:pool=8", "drop:Multi:multishot-mid-stream"],
                    floor_evaluations=5000, assumptions=SIMK_ASSUMPTIONS, also=[])
    if prop == "C11":
        rule = ("baton-scheduler schedules of one ring thread calling Ring::poll(None) against 1-3 threads calling SubmissionQueue::wake, families: S1 concurrent wakes, S2 wakes completed before the poll starts, S3 loop where wake i+1 is issued only after poll i returned, S4 the first poll finds completions ready and the wakes are issued once it is running (a marker set at the first scheduling point inside a10's poll): the second poll must return; "
                "default, kernel-thread (simulated SQPOLL thread) and single-issuer rings (IORING_REGISTER_SEND_MSG_RING path), optionally with a full submission queue when the wake message must be queued; oracle: a poll blocked in the simulated kernel with nothing to deliver once every wake() returned (no runnable thread left) is a lost wake-up; wake() after the Ring was dropped must be harmless; distinct = switch-sequence hash + configuration; "
                "plus the real kernel (scenario c11real): a thread blocked in Ring::poll(2 s) and 1-2 threads calling wake() after a random spin, 20-80 rounds per ring, default/single-issuer/kernel-thread rings; a poll that times out is followed by a second one and only two expired polls after the wake() calls returned count as a lost wake-up")
        if tier == "quick":
            jobs = [gen_job("c11", "native-debug", 1500, 8, timeout=600), gen_job("c11free", "miri", 2, 4, timeout=900), gen_job("c11real", "native-debug", 40, 8, timeout=900)]
        else:
            jobs = [gen_job("c11", "native-debug", 40000, 16, timeout=3000), gen_job("c11", "native-release", 40000, 16, timeout=3000), gen_job("c11", "asan", 2000, 16, timeout=3000), gen_job("c11free", "tsan", 200, 8, timeout=3000), gen_job("c11free", "miri", 8, 16, timeout=3000),
                    gen_job("c11real", "native-debug", 1500, 16, timeout=3000), gen_job("c11real", "native-release", 1500, 16, timeout=3000)]
        return dict(jobs=jobs, level="exploration", rule=rule, floor_cells=["family:S1-concurrent", "family:S2-wake-before-poll", "family:S3-poll-loop", "family:S4-wake-during-busy-poll", "ring:default", "ring:kernel-thread", "ring:single-issuer", "queue-full-at-wake", "wake-after-ring-dropped", "sched_kernel_blocks", "simk_msg_rings", "real_wake_rounds"],
                    floor_evaluations=2000, assumptions=SIMK_ASSUMPTIONS + ["liveness is judged in the bounded form 'a state in which no thread can run' under the scheduler, not by wall-clock time"], also=[])
    if prop == "C16":
        rule = ("(a) pure round trip storage -> bytes a10 hands to the kernel -> init with the length the kernel reports for that family (model: 16/28, path strlen+1 with and without NUL, unnamed 2), the rest of the storage filled with garbage: random and edge IPv4/IPv6 addresses, ports, flow labels, scope ids, Unix path names of every length 1..107; "
                "(b) real kernel (E6): Unix datagram sockets bound through a10 to relative path names of every length 1..107, abstract names incl. embedded/trailing NULs, unnamed; local_addr/recv_from compared with std's getsockname; IPv4 on random 127.a.b.c, TCP accept/peer address, IPv6 ::1 recv_from; distinct = distinct address values")
        if tier == "quick":
            jobs = [gen_job("c16", "native-debug", 2200, 8, params={"real_every": "10"}, timeout=600)]
        else:
            jobs = [gen_job("c16", "native-debug", 40000, 16, params={"real_every": "4"}, timeout=3000), gen_job("c16", "native-release", 40000, 16, params={"real_every": "4"}, timeout=3000), gen_job("c16", "miri", 300, 8, params={"real_every": "1000000000"}, timeout=2400)]
        return dict(jobs=jobs, level="exploration", rule=rule, floor_cells=["pure:ipv4", "pure:ipv6", "pure:either", "pure:unix-path", "pure:unix-unnamed", "real:unix-path", "real:unix-abstract", "real:unix-unnamed", "real:unix-recv-from", "real:ipv4", "real:accept-peer"],
                    floor_evaluations=5000, assumptions=["the real io_uring of this sandbox (kernel 6.18) is the source of 'the length the kernel reports' for Unix and loopback addresses", "std's getsockname/getpeername views are the independent reference", "addresses that cannot be bound here are covered by the pure model only"], also=[])
    if prop == "C17":
        rule = ("scripted inotify record streams delivered through the simulated kernel's READ completions to a real Watcher/Events: 0-13 records per history (name lengths 0, 1, 15-17, 255, random; kernel padding; any mask incl. combined bits and IN_ISDIR; unknown watch descriptors; IN_IGNORED and IN_Q_OVERFLOW records), batched 1-4 whole records per read, ended by an empty read, an error or left pending; "
                "decoy records beyond the n bytes written (natively; uninitialised under Miri); every &Event handed out is snapshotted and re-read after each later poll and after dropping the iterator; distinct = distinct record streams")
        if tier == "quick":
            jobs = [gen_job("c17", "native-debug", 2500, 8)]
        else:
            jobs = [gen_job("c17", "native-debug", 250000, 16, timeout=3000), gen_job("c17", "native-release", 250000, 16, timeout=3000), gen_job("c17", "asan", 4000, 16, timeout=1800), gen_job("c17", "miri", 12, 16, timeout=2400)]
        return dict(jobs=jobs, level="exploration", rule=rule, floor_cells=["record:ignored", "record:overflow", "record:name-255", "record:no-name", "record:unknown-wd", "end:0", "end:1", "end:2", "keep:0", "keep:3", "events_checked"],
                    floor_evaluations=5000, assumptions=SIMK_ASSUMPTIONS + ["inotify_init1/inotify_add_watch are interposed by the harness (watch descriptors 1,2,3.. per instance like the kernel); record layout follows inotify(7): header 16 bytes, name padded with NULs to a multiple of 16"], also=[])
    if prop == "C13":
        rule = ("(a) real kernel differential (E6): the a10 operation on one fixture, the libc/std call on an identical twin, results and resulting state compared: read/write/read_vectored/write_vectored at offsets {cursor,0,random,2^32-1,2^32+1,2^40} with lengths incl. 0, truncate, allocate (+KEEP_SIZE), sync, advise, metadata vs fstat, open option matrix (exists x write x create x create_new x truncate x append x mode x kind) vs open(2), create_dir/remove_file/remove_dir/rename incl. failing cases vs libc, send/send_vectored/recv(PEEK)/socket options/local_addr/peer_addr/shutdown on stream pairs, pipe, splice - each file/socket operation on a regular and on a direct descriptor; "
                "(b) ABI sweep on the simulated kernel: 32 operation kinds with random arguments (waitid ids/options, madvise, socket, listen, shutdown, fsync, fallocate, fadvise, ftruncate, statx, unlink, mkdir, rename, open flags/mode/kind, splice roles/offsets/flags, connect/bind addresses, send_to, socket options, accept, multishot accept, reads and receives into pool buffers and their multishot forms (exact flag byte), to_file_descriptor, pipe, local_addr/peer_addr, socket protocols, read/write offsets), every submission field decoded with the independent ABI table and compared with the arguments, regular and direct descriptors; distinct = distinct (operation, arguments)")
        if tier == "quick":
            jobs = [gen_job("c13", "native-debug", 500, 8, timeout=600), gen_job("c13abi", "native-debug", 2500, 8)]
        else:
            jobs = [gen_job("c13", "native-debug", 40000, 16, timeout=3000), gen_job("c13", "native-release", 40000, 16, timeout=3000), gen_job("c13abi", "native-debug", 300000, 16, timeout=3000), gen_job("c13abi", "native-release", 300000, 16, timeout=3000)]
        return dict(jobs=jobs, level="exploration", rule=rule, floor_cells=["op:write:regular", "op:write:direct", "op:read:direct", "op:read_vectored:regular", "op:write_vectored:direct", "op:open", "op:rename", "op:remove_dir", "op:send:direct", "op:recv:regular", "op:sockopt:direct", "op:shutdown:regular", "op:pipe", ["op:splice:regular", "op:splice:direct"], "op:allocate:regular", "op:truncate:direct", "abi:waitid", "abi:madvise", "abi:splice", "abi:open", "abi:accept", "abi:multishot_accept", "abi:read_pool", "abi:multishot_read", "abi:to_file_descriptor", "abi-kind:direct", "op:socket-name:regular", ["op:socket-name:direct", "op:socket-name-unsupported:direct"]],
                    floor_evaluations=5000, assumptions=["the real io_uring of this sandbox (kernel 6.18) and libc/std are the oracle for part (a); arguments are sampled, not enumerated", "part (b) trusts the harness' independent ABI table (written from the uapi header)", "operations needing privileges or devices are compared for equal failure"], also=[])
    return None


ENGINES = [
    dict(name="baton-scheduler", path="/verif/harness/src/sched.rs, src/props/mt.rs", serves_properties=["C04", "C08", "C11"], kind_free_text="runtime monitoring: real threads, one running at a time, seeded scheduler switching at the cfg(a10_verif) hook points; reproducible schedules"),
    dict(name="real-kernel", path="/verif/harness/src/props/real.rs, c16.rs", serves_properties=["C13", "C16"], kind_free_text="a10 on the real io_uring of the sandbox next to std/libc calls on the same descriptors (differential oracle)"),
    dict(name="pure-sweep", path="/verif/harness/src/props/c14.rs", serves_properties=["C14"], kind_free_text="differential sweep of pure functions against a reference model, natively and under Miri"),
    dict(name="simk-explorer", path="/verif/harness (scenarios c01..c09 on src/simk, src/world.rs, src/props/generic.rs)", serves_properties=["C01", "C02", "C03", "C05", "C06", "C07", "C09", "C10", "C12", "C15", "C17", "C18"], kind_free_text="runtime monitoring: real a10 driven single-threaded against an in-process simulated io_uring kernel with adversarial completion timing; boundary oracles (allocator monitor, waker ledger, descriptor ledger, request log)"),
]

_NOTE = "trusted base: simk's model of the io_uring kernel (independent ABI table, DESIGN.md 2.2), the five a10_verif hook points, the harness monitors; judged only on the histories generated for the given VERIF_SEED"

NOT_CLAIMED = {}

CLAIMS = {
    "C01": dict(level="exploration", engine="simk-explorer", design_ref="DESIGN.md 4 C01", note=_NOTE,
                technique="allocator monitor x kernel-held-region registry under an adversarial simulated kernel; quarantine-poison check of freed blocks in histories on the real kernel (realmix); controlled and free-running thread schedules of drop-vs-completion; ASan and Miri in the thorough tier",
                text="Every dealloc/realloc in the process is checked against the regions the simulated kernel currently holds for in-flight (or queued) requests, for tens of thousands of random interleavings of poll/drop/Ring::poll with kernel consume/complete/cancel outcomes per run; thorough adds the same histories under AddressSanitizer and Miri, where the simulated kernel's real reads/writes at completion time turn a premature free into a tool report."),
    "C02": dict(level="exploration", engine="simk-explorer", design_ref="DESIGN.md 4 C02", note=_NOTE,
                technique="history + per-operation sequential model with unique results per submission id",
                text="Each value a Future/AsyncIterator resolves with is compared with what the simulated kernel posted for that very submission (unique counts, keyed payloads, unique descriptors, per-op errnos), across random completion orders, batchings, CQ overflow backlogs and multishot/zero-copy streams."),
    "C03": dict(level="exploration", engine="simk-explorer", design_ref="DESIGN.md 4 C03", note=_NOTE,
                technique="waker ledger checked at quiescent points + strict executor that re-polls only woken operations; bounded-progress restatement of the queue-space clause",
                text="After every drained Ring::poll each pending operation whose readiness-making completion was consumed must have had its most recent waker invoked; the harness executor never re-polls unwoken operations, so a lost wake-up also shows as an operation that never resolves. Queue-space waiters must be woken within (registered waiters + 4) kernel entries once room exists, with no completions at all."),
    "C05": dict(level="exploration", engine="simk-explorer", design_ref="DESIGN.md 4 C05", note=_NOTE,
                technique="trap entries in every unpublished/returned completion slot, head monotonicity checks, injected bookkeeping and F_SKIP completions with recognisable results, counters started near 2^31/2^32",
                text="The simulated kernel keeps every completion slot outside [head, tail) filled with trap entries, scribbles slots the moment a10 gives them back, injects user_data 0-3 and IORING_CQE_F_SKIP completions (also carrying live operations' user_data) and starts the 32-bit counters at 2^32-k, 2^31-k and random values so that runs cross the wrap."),
    "C06": dict(level="exploration", engine="simk-explorer", design_ref="DESIGN.md 4 C06", note=_NOTE,
                technique="cancel-request log vs drop log at the kernel boundary; allocator monitor (quarantine, exactly-once, leak ledger after teardown); controlled and free-running (Miri, TSan) thread schedules of drop-vs-completion",
                text="Every ASYNC_CANCEL the simulated kernel receives is matched against the operations the history dropped while running (target, count, room in the queue at the drop); the allocator monitor reports state freed twice, freed while its completion is still unconsumed, or still live after the ring was dropped, over all op kinds x drop points x cancel outcomes the generator reaches (matrix printed in the evidence). Scenario c06mt/c06free drops in-flight futures on worker threads while the ring thread consumes their completions: under the baton scheduler (switching at a10's lock points) with a leak/double-free ledger over the whole schedule, and free-running under Miri (its scheduler, data-race detector, weak memory) and ThreadSanitizer."),
    "C04": dict(level="exploration", engine="baton-scheduler", design_ref="DESIGN.md 4 C04", note=_NOTE + "; the scheduler explores sequentially consistent interleavings at the hook points only",
                technique="controlled thread schedules (baton scheduler at a10_verif hook points) over the real submission queue + simulated kernel consuming entries; counter wrap sweep; free-running schedules under ThreadSanitizer and Miri (data-race detection of entry writes vs kernel reads); token exactly-once monitor on the real kernel (c04real)",
                text="The simulated kernel checks at every consumption that the tail is never more than `entries` ahead of its head, that no consumed entry is empty/reset and that no single-shot user_data is in flight twice; the scenario gives every read a unique offset so that lost, duplicated or modified submissions are identified exactly. Thread interleavings are produced deterministically by a seeded scheduler that switches at the lock, shared-load and tail-store points inside a10; every queue size x counter start value combination near the 2^31/2^32 wrap is swept exhaustively single-threaded."),
    "C14": dict(level="exploration", engine="pure-sweep", design_ref="DESIGN.md 4 C14", note="trusted base: the Vec<u8> reference model in the harness; IoSlice/IoMutSlice == struct iovec",
                technique="differential sweep against a Vec<u8> model with pointer-bounds checks; the same sweep under Miri",
                text="All buffer trait implementations and wrappers are exercised with systematic geometries (small ones exhaustively) and the full limit range including values >= 2^32; every exposed (ptr,len) must lie inside the vector's own spare capacity/contents, the reported lengths must agree, and writing a keyed pattern through the exposed pointers followed by set_init(n) must append exactly n bytes in order. Miri additionally turns any out-of-bounds or uninitialised access into an error."),
    "C10": dict(level="exploration", engine="simk-explorer", design_ref="DESIGN.md 4 C10", note=_NOTE,
                technique="reference-model monitor: simulated kernel as byte sink/source accepting scripted short transfers, every continuation request decoded and compared with the stream model; small shapes enumerated exhaustively",
                text="For each composite future the kernel side accepts exactly the scripted number of bytes per request and records them; Ok is only accepted if the sink equals the concatenated input (or >= n bytes arrived in order for the read side), every continuation must carry the caller's opcode (zero-copy), descriptor, flags and the advanced offset and must offer exactly the not-yet-transferred bytes, WriteZero/UnexpectedEof only after a zero transfer with data left, extract variants must return the original buffers (same heap pointers)."),
    "C15": dict(level="exploration", engine="simk-explorer", design_ref="DESIGN.md 4 C15", note=_NOTE,
                technique="differential testing against a capacity-bounded Vec<u8> model with canaries around the slot, in debug and release profiles",
                text="Random edit sequences on kernel-filled ReadBufs are compared call by call with a Vec<u8> of fixed capacity, including which ranges must panic (Vec::drain semantics) and that a rejected call leaves the buffer untouched; all other pool slots carry canaries; the buffer-ring entry written at release must name the slot the kernel selected. Run in both build profiles because overflow checks differ."),
    "C07": dict(level="exploration", engine="simk-explorer", design_ref="DESIGN.md 4 C07", note=_NOTE + "; the close(2) interposer sees every close in the process",
                technique="descriptor ledger (issued -> owned -> closed(how)) fed by a close(2) interposer and the simulated kernel; never-reused descriptor numbers; known findings keyed by (opcode, life-cycle state); descriptor count and direct-table conservation on the real kernel (realmix)",
                text="Every descriptor the simulated kernel hands out is a real, never-reused number; every close in the process (a10's synchronous fallback, OwnedFd drops, IORING_OP_CLOSE, files-update) is an event. Double closes, closes of the wrong kind, closes of standard streams, descriptors returned with the wrong kind, and descriptors still open after everything was dropped are reported per opcode and life-cycle state. The unchanged tree has known findings (results of abandoned/uncollected operations, dropped Close futures), listed in KNOWN_FINDINGS.txt."),
    "C12": dict(level="fault_enumeration", engine="simk-explorer", design_ref="DESIGN.md 4 C12", note=_NOTE,
                technique="exhaustive enumeration of drop orders x 4 kernel situations with four ledgers (mappings, descriptors, allocations, kernel tables) checked after each history; sampled teardown histories on the real kernel with leak/descriptor/poison monitors",
                text="All permutations of dropping the objects of four object sets, crossed with how the ring's final sync-cancel ends, are executed on the simulated kernel; after each, every mapped region must have been unmapped exactly once with its own length, no request may be in flight or queued after Ring's drop returned, no buffer ring may stay registered, no descriptor may be left open, no block allocated inside a10 may be live, nothing may be freed while the kernel holds it. Exhaustive within these sets."),
    "C18": dict(level="fault_enumeration", engine="simk-explorer", design_ref="DESIGN.md 4 C18", note=_NOTE,
                technique="exhaustive enumeration of configurations x kernel refusal points with descriptor/mapping/allocation ledgers and parameter-block decoding",
                text="Every configuration combination is built against every scripted kernel answer; a failing build must leave no ring descriptor, no mapping and no allocation behind, a successful one must have passed exactly the configured flags/sizes/cpu/idle/wq_fd to the kernel, must use the granted (not requested) sizes and seeded ring offsets (proved by a read round trip across the index wrap), must refuse submissions while disabled and work after enable(). Exhaustive within the listed space."),
    "C08": dict(level="exploration", engine="simk-explorer + baton-scheduler", design_ref="DESIGN.md 4 C08", note=_NOTE,
                technique="pool ledger in the simulated kernel (owner of the buffer-ring head) + checksums of held buffers + conservation check; controlled schedules for concurrent releases (plus free-running under Miri/TSan); wrap marathon",
                text="The simulated kernel owns the kernel head of every buffer ring and audits every entry a10 publishes (buffer handed out exactly once, own address and length, never more entries than the pool has), the harness checksums every ReadBuf it holds, and at the end of each history every buffer must be the kernel's again. Concurrent releases run under the seeded scheduler with the kernel looking at the ring between the entry write and the tail store. Known findings: buffers selected for abandoned/uncollected operations are lost (KNOWN_FINDINGS.txt)."),
    "C11": dict(level="exploration", engine="baton-scheduler", design_ref="DESIGN.md 4 C11", note=_NOTE + "; bounded-progress restatement of liveness",
                technique="controlled thread schedules with deadlock detection: a Ring::poll parked in the simulated kernel while no other thread can run is a lost wake-up; free-running schedules under Miri and ThreadSanitizer; wake-vs-blocked-poll rounds on the real kernel (c11real)",
                text="Three scenario families make 'every poll has a dedicated wake' true by construction, so a poll that blocks forever in the simulated kernel after all wake() calls returned is a lost wake-up; spurious early returns are allowed. All three ring configurations that support waking are covered, including the synchronous REGISTER_SEND_MSG_RING path and the retry loop when the queue is full."),
    "C16": dict(level="exploration", engine="real-kernel differential + pure sweep", design_ref="DESIGN.md 4 C16", note="trusted base: the real kernel of the sandbox and std's socket address accessors as reference; the pure model of kernel-reported lengths for addresses that cannot be bound",
                technique="differential testing against the real kernel (std getsockname as independent oracle) plus a pure storage->bytes->init sweep with garbage beyond the reported length",
                text="Every supported address type is converted to its kernel representation and back using the length the kernel reports; for Unix addresses of every path length, abstract names and unnamed sockets the kernel of the sandbox is asked directly (bind through a10, read back through a10 and through std), for IP addresses the full value space is swept purely and loopback addresses are bound for real."),
    "C17": dict(level="exploration", engine="simk-explorer", design_ref="DESIGN.md 4 C17", note=_NOTE,
                technique="scripted trace specification: the yielded event sequence is compared with the user-visible records of the scripted stream; decoy records / uninitialised memory beyond the bytes written; snapshots of every handed-out reference",
                text="The decoder is driven with arbitrary well-formed record streams in arbitrary batchings and must yield exactly the user-visible records in order with mask, unpadded name and path_for, forget watches on IN_IGNORED, skip overflow markers and never look beyond the bytes the kernel wrote (a decoy record there would be yielded; under Miri the bytes are uninitialised). References handed out are re-read after later polls and after dropping the iterator: the unchanged tree has the known findings D6."),
    "C13": dict(level="exploration", engine="real-kernel differential + simk ABI sweep", design_ref="DESIGN.md 4 C13", note="trusted base: the real kernel + libc as oracle (part a); the harness' ABI table (part b)",
                technique="differential testing against the real kernel on twin fixtures (regular and direct descriptors) and decoding of every submission field against the arguments on the simulated kernel",
                text="For sampled arguments each a10 operation and the corresponding synchronous call run on identical twin fixtures on the real kernel and must agree on results, errno and resulting state (file bytes at the touched offsets, sizes, modes, directory trees, bytes received by the peer, option values); operations and values that cannot be run for real are checked by decoding the submission a10 builds. Known findings on the unchanged tree: metadata() and splice_to() do not work on direct descriptors."),
    "C09": dict(level="exploration", engine="simk-explorer", design_ref="DESIGN.md 4 C09", note=_NOTE,
                technique="fault injection of EINTR/ECANCELED completions with byte-for-byte comparison of re-issued submissions",
                text="More than half of all completions in this scenario are EINTR/ECANCELED; the caller must never observe them, every re-issued submission must be byte-identical (opcode, fd, flags, offsets, addresses, lengths, user_data) to the first, failed attempts scribble the buffers so mixed data would show, and the value must be the last attempt's."),
}
