//! Result reporting: JSON lines on stdout, read by the `check` driver.

#![allow(dead_code)]

use std::collections::{BTreeMap, HashSet};

use crate::mon::alloc::MonGuard;

/// Occurrences per (property, signature) in this process. Only the first few
/// of each are written out in full (known findings occur millions of times in
/// a thorough run), all are counted and the counts go into the summary.
static SEEN: std::sync::Mutex<Option<BTreeMap<String, u64>>> = std::sync::Mutex::new(None);
pub const STREAM_PER_SIGNATURE: u64 = 3;

/// Count one occurrence; true if it should still be written out in full.
pub fn note_violation(prop: &str, sig: &str) -> bool {
    let _g = MonGuard::new();
    let mut g = SEEN.lock().unwrap_or_else(|e| e.into_inner());
    let m = g.get_or_insert_with(BTreeMap::new);
    let n = m.entry(format!("{prop}:{sig}")).or_insert(0);
    *n += 1;
    *n <= STREAM_PER_SIGNATURE
}

fn violation_counts() -> Vec<(String, u64)> {
    let g = SEEN.lock().unwrap_or_else(|e| e.into_inner());
    g.as_ref().map(|m| m.iter().map(|(k, v)| (k.clone(), *v)).collect()).unwrap_or_default()
}

pub fn esc(s: &str) -> String {
    let mut o = String::with_capacity(s.len() + 2);
    for c in s.chars() {
        match c {
            '"' => o.push_str("\\\""),
            '\\' => o.push_str("\\\\"),
            '\n' => o.push_str("\\n"),
            '\r' => o.push_str("\\r"),
            '\t' => o.push_str("\\t"),
            c if (c as u32) < 0x20 => o.push_str(&format!("\\u{:04x}", c as u32)),
            c => o.push(c),
        }
    }
    o
}

pub fn jstr(s: &str) -> String {
    format!("\"{}\"", esc(s))
}

pub fn jlist(xs: &[String]) -> String {
    let v: Vec<String> = xs.iter().map(|x| jstr(x)).collect();
    format!("[{}]", v.join(","))
}

#[derive(Clone, Debug)]
pub struct ViolationOut {
    pub prop: String,
    pub sig: String,
    pub detail: String,
    pub scenario: String,
    pub seed: u64,
    pub index: u64,
    pub trace: Vec<String>,
}

/// Accumulates what one harness process observed.
pub struct Report {
    pub scenario: String,
    pub evaluations: u64,
    pub nontrivial: u64,
    pub sigs: HashSet<u64>,
    pub cells: BTreeMap<String, u64>,
    pub counters: BTreeMap<String, u64>,
    pub samples: Vec<String>,
    pub violations: Vec<ViolationOut>,
    pub notes: Vec<String>,
    pub exhaustive: bool,
}

impl Report {
    pub fn new(scenario: &str) -> Report {
        Report {
            scenario: scenario.into(),
            evaluations: 0,
            nontrivial: 0,
            sigs: HashSet::new(),
            cells: BTreeMap::new(),
            counters: BTreeMap::new(),
            samples: Vec::new(),
            violations: Vec::new(),
            notes: Vec::new(),
            exhaustive: false,
        }
    }

    /// Record one executed history. `sig` identifies its shape; `nontrivial`
    /// tells whether it satisfies the scenario's non-triviality rule.
    pub fn history(&mut self, sig: u64, nontrivial: bool, sample: impl FnOnce() -> String) {
        let _g = MonGuard::new();
        self.evaluations += 1;
        if nontrivial {
            self.nontrivial += 1;
            if self.sigs.insert(sig) && self.samples.len() < 6 && (self.sigs.len() % 7 == 1 || self.samples.len() < 2) {
                self.samples.push(sample());
            }
        }
    }

    pub fn cell(&mut self, name: impl Into<String>) {
        let _g = MonGuard::new();
        *self.cells.entry(name.into()).or_insert(0) += 1;
    }

    pub fn count(&mut self, name: &str, n: u64) {
        let _g = MonGuard::new();
        *self.counters.entry(name.into()).or_insert(0) += n;
    }

    pub fn violation(&mut self, v: ViolationOut) {
        let _g = MonGuard::new();
        // One report per signature per process is enough.
        if self.violations.iter().filter(|o| o.sig == v.sig && o.prop == v.prop).count() < 2 {
            self.violations.push(v);
        }
    }

    pub fn absorb_counters(&mut self) {
        let c = crate::simk::k().counters.clone();
        self.count("simk_setups", c.setups);
        self.count("simk_mmaps", c.mmaps);
        self.count("simk_munmaps", c.munmaps);
        self.count("simk_enters", c.enters);
        self.count("simk_sqes_consumed", c.sqes);
        self.count("simk_cqes_posted", c.cqes);
        self.count("simk_cqes_backlogged", c.cqes_backlogged);
        self.count("simk_cancels", c.cancels);
        self.count("simk_closes", c.closes);
        self.count("simk_msg_rings", c.msg_rings);
        self.count("simk_registers", c.registers);
        self.count("simk_sync_cancels", c.sync_cancels);
        self.count("simk_kernel_mem_writes", c.mem_writes);
        self.count("simk_kernel_mem_reads", c.mem_reads);
        self.count("simk_trap_entries_written", c.traps_written);
        self.count("simk_pbuf_selects", c.pbuf_selects);
        self.count("simk_pbuf_returns", c.pbuf_returns);
        self.count("simk_would_block", c.would_block);
    }

    pub fn print(&self) {
        let _g = MonGuard::new();
        for v in &self.violations {
            println!(
                "{{\"t\":\"viol\",\"prop\":{},\"sig\":{},\"detail\":{},\"scenario\":{},\"seed\":{},\"index\":{},\"trace\":{}}}",
                jstr(&v.prop),
                jstr(&v.sig),
                jstr(&v.detail),
                jstr(&v.scenario),
                v.seed,
                v.index,
                jlist(&v.trace)
            );
        }
        let cells: Vec<String> = self.cells.iter().map(|(k, v)| format!("{}:{}", jstr(k), v)).collect();
        let mut counters: Vec<String> = self.counters.iter().map(|(k, v)| format!("{}:{}", jstr(k), v)).collect();
        for (k, n) in violation_counts() {
            counters.push(format!("{}:{}", jstr(&format!("violations:{k}")), n));
        }
        let mut sigs: Vec<u64> = self.sigs.iter().copied().collect();
        sigs.sort();
        sigs.truncate(400_000);
        let sigs: Vec<String> = sigs.iter().map(|s| format!("\"{s:x}\"")).collect();
        println!(
            "{{\"t\":\"summary\",\"scenario\":{},\"evaluations\":{},\"nontrivial\":{},\"distinct\":{},\"exhaustive\":{},\"cells\":{{{}}},\"counters\":{{{}}},\"samples\":{},\"notes\":{},\"sigs\":[{}]}}",
            jstr(&self.scenario),
            self.evaluations,
            self.nontrivial,
            self.sigs.len(),
            self.exhaustive,
            cells.join(","),
            counters.join(","),
            jlist(&self.samples),
            jlist(&self.notes),
            sigs.join(",")
        );
    }
}
