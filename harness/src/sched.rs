//! Thread scheduler (baton). Stub for now: single-threaded mode only.

pub const P_KERNEL_ENTER: u32 = 100;
pub const P_KERNEL_EXIT: u32 = 101;

/// A scheduling point inside harness/simk code.
pub fn point(_id: u32) {}

/// Wait (without holding the simk lock) until ring `fd` may have `want`
/// completions. Returns false if no other thread can ever post one.
pub fn wait_for_cq(_fd: i32, _want: u32) -> bool {
    false
}
