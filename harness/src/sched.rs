//! E2: the baton scheduler.
//!
//! Real OS threads, but exactly one runs at a time. At every scheduling point
//! (the cfg(a10_verif) hooks inside a10: lock attempts, loads of values shared
//! with the kernel, queue tail/head stores, polling-state changes; plus every
//! simulated-kernel entry/exit and the harness' own API boundaries) a seeded
//! policy decides which thread continues. Every schedule produced this way is a
//! legal sequentially consistent execution of the real program, and the seed
//! reproduces it.

#![allow(dead_code)]

use std::cell::Cell;
use std::sync::atomic::{AtomicBool, Ordering};
use std::sync::{Condvar, Mutex};

use crate::mon::alloc::MonGuard;
use crate::rng::{Rng, fnv};

pub const P_KERNEL_ENTER: u32 = 100;
pub const P_KERNEL_EXIT: u32 = 101;
pub const P_API: u32 = 102;
pub const P_KTHREAD: u32 = 103;
pub const P_YIELD: u32 = 104;

#[derive(Copy, Clone, Debug, PartialEq, Eq)]
enum Status {
    Runnable,
    /// Failed to take a lock, will retry when scheduled again.
    BlockedLock,
    /// Blocked in io_uring_enter waiting for `want` completions on ring `fd`.
    BlockedKernel(i32, u32),
    /// Waiting for a condition (`State::conds`) that another thread makes true.
    BlockedCond,
    Finished,
}

struct State {
    running: bool,
    current: usize,
    status: Vec<Status>,
    rng: Rng,
    /// Per mille probability of switching at a point.
    switch_pm: u64,
    steps: u64,
    max_steps: u64,
    trace_hash: u64,
    switches: u64,
    /// Budget exhausted: everybody runs freely to the end.
    free_run: bool,
    /// PCT-style: thread priorities (higher runs first) and change points.
    pct: Option<Pct>,
    points_by_id: [u64; 16],
    lock_blocks: u64,
    kernel_blocks: u64,
    conds: Vec<Option<Box<dyn Fn() -> bool + Send>>>,
    /// Progress counter: incremented at every point passed by a running thread.
    epoch: u64,
    blocked_epoch: Vec<u64>,
}

fn notify_all() {
    for c in &CVS {
        c.notify_all();
    }
}

struct Pct {
    prio: Vec<u32>,
    change_at: Vec<u64>,
}

static STATE: Mutex<Option<State>> = Mutex::new(None);
static CVS: [Condvar; 8] = [const { Condvar::new() }; 8];
static ACTIVE: AtomicBool = AtomicBool::new(false);
/// Set when a violation made the rest of the schedule meaningless (e.g. the
/// submission queue was overrun): threads stop calling into a10 and leak
/// what they hold.
pub static ABORT: AtomicBool = AtomicBool::new(false);

pub fn aborted() -> bool {
    ABORT.load(Ordering::SeqCst)
}

thread_local! {
    static TID: Cell<Option<usize>> = const { Cell::new(None) };
}

fn tid() -> Option<usize> {
    TID.try_with(|t| t.get()).unwrap_or(None)
}

/// Single-threaded real-kernel scenarios: make a10 take its locks with try_lock + the
/// `lock_blocked` hook (instead of blocking in a futex), so that a lock that can never be
/// taken (use-after-free of an operation's state) is noticed by `stalled`.
pub static SPIN_LOCKS: AtomicBool = AtomicBool::new(false);

pub fn active() -> bool {
    (ACTIVE.load(Ordering::Relaxed) && tid().is_some()) || SPIN_LOCKS.load(Ordering::Relaxed)
}

fn kernel_ready(fd: i32, want: u32) -> bool {
    let mut k = crate::simk::k();
    crate::simk::enter::cq_ready(&mut k, fd) >= want
}

/// Choose who runs next. `me` is the calling thread, `must_switch` excludes it
/// if anybody else can run.
fn pick(st: &mut State, me: usize, must_switch: bool) -> Option<usize> {
    let n = st.status.len();
    let mut cands: Vec<usize> = Vec::with_capacity(n);
    for i in 0..n {
        let ok = match st.status[i] {
            Status::Runnable => true,
            // Retrying is pointless until somebody else made a step.
            Status::BlockedLock => st.epoch > st.blocked_epoch[i],
            Status::BlockedKernel(fd, want) => kernel_ready(fd, want),
            Status::BlockedCond => st.conds[i].as_ref().map(|c| c()).unwrap_or(true),
            Status::Finished => false,
        };
        if ok {
            cands.push(i);
        }
    }
    if cands.is_empty() {
        return None;
    }
    let others: Vec<usize> = cands.iter().copied().filter(|i| *i != me).collect();
    if must_switch {
        if others.is_empty() {
            return if cands.contains(&me) { Some(me) } else { None };
        }
        return Some(choose(st, &others));
    }
    let me_ok = cands.contains(&me);
    if !me_ok {
        return Some(choose(st, &others));
    }
    if let Some(p) = st.pct.as_mut() {
        // Priority change points.
        if p.change_at.contains(&st.steps) {
            let low = p.prio.iter().copied().min().unwrap_or(1).saturating_sub(1);
            p.prio[me] = low;
        }
        let best = cands.iter().copied().max_by_key(|i| p.prio[*i]).unwrap();
        return Some(best);
    }
    if !others.is_empty() && st.rng.below(1000) < st.switch_pm {
        Some(choose(st, &others))
    } else {
        Some(me)
    }
}

fn choose(st: &mut State, xs: &[usize]) -> usize {
    if let Some(p) = st.pct.as_ref() {
        return xs.iter().copied().max_by_key(|i| p.prio[*i]).unwrap();
    }
    xs[st.rng.below(xs.len() as u64) as usize]
}

fn switch_to(st: &mut State, me: usize, next: usize) {
    if next != me {
        st.switches += 1;
        st.trace_hash = fnv(st.trace_hash, &[(next as u8) | 0x80, (st.steps & 0xff) as u8]);
        st.current = next;
        if let Status::BlockedLock | Status::BlockedKernel(..) | Status::BlockedCond = st.status[next] {
            st.status[next] = Status::Runnable;
            st.conds[next] = None;
        }
        CVS[next & 7].notify_all();
    }
}

fn wait_for_baton<'a>(mut g: std::sync::MutexGuard<'a, Option<State>>, me: usize) -> std::sync::MutexGuard<'a, Option<State>> {
    loop {
        {
            let st = g.as_ref().unwrap();
            if st.free_run || st.current == me {
                return g;
            }
        }
        g = CVS[me & 7].wait(g).unwrap_or_else(|e| e.into_inner());
    }
}

/// E3: run `threads` freely (no baton); the hooks inside a10 are inactive, the
/// points in harness code inject random yields/spins.
pub fn run_free(threads: Vec<Box<dyn FnOnce() + Send>>, seed: u64) {
    ABORT.store(false, Ordering::SeqCst);
    ACTIVE.store(false, Ordering::SeqCst);
    FREE_THREADS.store(threads.len(), Ordering::SeqCst);
    FREE_MODE.store(true, Ordering::SeqCst);
    let mut handles = Vec::new();
    for (i, f) in threads.into_iter().enumerate() {
        let s = seed ^ (i as u64).wrapping_mul(0x9E37_79B9_7F4A_7C15);
        handles.push(
            std::thread::Builder::new()
                .name(format!("free-{i}"))
                .spawn(move || {
                    FREE_RNG.with(|r| r.set(s | 1));
                    let r = std::panic::catch_unwind(std::panic::AssertUnwindSafe(f));
                    FREE_THREADS.fetch_sub(1, Ordering::SeqCst);
                    if let Err(p) = r {
                        std::panic::resume_unwind(p);
                    }
                })
                .expect("spawn"),
        );
    }
    let mut panicked = None;
    for h in handles {
        if let Err(p) = h.join() {
            panicked = Some(p);
        }
    }
    FREE_MODE.store(false, Ordering::SeqCst);
    FREE_THREADS.store(0, Ordering::SeqCst);
    if let Some(p) = panicked {
        std::panic::resume_unwind(p);
    }
}

static FREE_MODE: AtomicBool = AtomicBool::new(false);
thread_local! {
    static FREE_RNG: Cell<u64> = const { Cell::new(0x1234_5678_9ABC_DEF1) };
}

fn free_jitter() {
    let x = FREE_RNG.with(|r| {
        let mut x = r.get();
        x ^= x << 13;
        x ^= x >> 7;
        x ^= x << 17;
        r.set(x);
        x
    });
    match x % 8 {
        0 => std::thread::yield_now(),
        1 => {
            for _ in 0..(x >> 8) % 200 {
                std::hint::spin_loop();
            }
        }
        _ => {}
    }
}

/// A scheduling point.
thread_local! { static MARKED: std::cell::Cell<bool> = const { std::cell::Cell::new(false) }; }
static MARK_SEEN: AtomicBool = AtomicBool::new(false);

/// While a thread is marked, the first scheduling point it reaches *inside a10*
/// (ids below 100) sets a flag other threads can wait for: "the marked call has
/// really started".
pub fn mark_thread(on: bool) {
    MARKED.with(|m| m.set(on));
}
pub fn mark_reset() {
    MARK_SEEN.store(false, Ordering::SeqCst);
}
pub fn mark_seen() -> bool {
    MARK_SEEN.load(Ordering::SeqCst)
}

pub fn point(id: u32) {
    if id < 100 && MARKED.with(|m| m.get()) {
        MARK_SEEN.store(true, Ordering::SeqCst);
    }
    if !ACTIVE.load(Ordering::Relaxed) {
        if FREE_MODE.load(Ordering::Relaxed) {
            free_jitter();
        }
        return;
    }
    let Some(me) = tid() else { return };
    let _m = MonGuard::new();
    let mut g = STATE.lock().unwrap_or_else(|e| e.into_inner());
    let st = g.as_mut().unwrap();
    if st.free_run {
        return;
    }
    st.steps += 1;
    st.epoch += 1;
    st.points_by_id[(id as usize) & 15] += 1;
    st.trace_hash = fnv(st.trace_hash, &[me as u8, id as u8]);
    if st.steps > st.max_steps {
        st.free_run = true;
        notify_all();
        return;
    }
    match pick(st, me, false) {
        Some(next) if next != me => {
            switch_to(st, me, next);
            let _g = wait_for_baton(g, me);
        }
        _ => {}
    }
}

/// The calling thread could not take a lock.
/// Called when a thread has been spinning on a lock for so long that the
/// holder must be gone (natively a use-after-free shows up like this: the lock
/// word is the poison pattern of the quarantined block). The hook reports what
/// the monitors know; the process ends afterwards.
pub static ON_STALL: std::sync::Mutex<Option<Box<dyn Fn(usize) + Send>>> = std::sync::Mutex::new(None);

fn stalled(addr: usize) {
    thread_local! { static SPINS: std::cell::Cell<u64> = const { std::cell::Cell::new(0) }; }
    let n = SPINS.with(|s| {
        s.set(s.get() + 1);
        s.get()
    });
    if n == 3_000_000 {
        let _m = MonGuard::new();
        if let Some(h) = ON_STALL.lock().unwrap_or_else(|e| e.into_inner()).take() {
            h(addr);
            eprintln!("HARNESS-STALL a thread spun on a lock 3000000 times after the schedule was cut off");
            std::process::exit(6);
        }
    }
}

pub fn lock_blocked(_addr: usize) {
    if !ACTIVE.load(Ordering::Relaxed) {
        stalled(_addr);
        std::thread::yield_now();
        return;
    }
    let Some(me) = tid() else { return };
    let _m = MonGuard::new();
    let mut g = STATE.lock().unwrap_or_else(|e| e.into_inner());
    let st = g.as_mut().unwrap();
    if st.free_run {
        drop(g);
        stalled(_addr);
        std::thread::yield_now();
        return;
    }
    st.steps += 1;
    st.lock_blocks += 1;
    st.status[me] = Status::BlockedLock;
    st.blocked_epoch[me] = st.epoch;
    match pick(st, me, true) {
        Some(next) if next != me => {
            switch_to(st, me, next);
            let mut g = wait_for_baton(g, me);
            g.as_mut().unwrap().status[me] = Status::Runnable;
        }
        _ => {
            // Nobody else can run: whoever holds the lock is gone (or only
            // lock-blocked threads remain: let them retry).
            st.status[me] = Status::Runnable;
            st.epoch += 1;
            st.steps += 50;
            if st.steps > st.max_steps {
                st.free_run = true;
                notify_all();
            }
        }
    }
}

/// Wait (without holding the simk lock) until ring `fd` may have `want`
/// completions. Returns false if no other thread can ever post one.
pub fn wait_for_cq(fd: i32, want: u32) -> bool {
    if !ACTIVE.load(Ordering::Relaxed) || tid().is_none() {
        return free_wait_for_cq(fd, want);
    }
    let me = tid().unwrap();
    let _m = MonGuard::new();
    let mut g = STATE.lock().unwrap_or_else(|e| e.into_inner());
    let st = g.as_mut().unwrap();
    if st.free_run {
        drop(g);
        return free_wait_for_cq(fd, want);
    }
    st.steps += 1;
    st.kernel_blocks += 1;
    st.status[me] = Status::BlockedKernel(fd, want);
    match pick(st, me, true) {
        Some(next) if next != me => {
            switch_to(st, me, next);
            let mut g = wait_for_baton(g, me);
            g.as_mut().unwrap().status[me] = Status::Runnable;
            true
        }
        Some(_) => {
            // Ready already.
            st.status[me] = Status::Runnable;
            true
        }
        None => {
            st.status[me] = Status::Runnable;
            false
        }
    }
}

/// True while a schedule (controlled or free-running) is being executed.
pub fn in_schedule() -> bool {
    ACTIVE.load(Ordering::Relaxed) || FREE_MODE.load(Ordering::Relaxed)
}

/// Debugging aid: the state of every thread of the running schedule.
pub fn statuses() -> String {
    let _m = MonGuard::new();
    let g = STATE.lock().unwrap_or_else(|e| e.into_inner());
    match g.as_ref() {
        Some(st) => format!("current={} steps={} statuses={:?}", st.current, st.steps, st.status),
        None => "no schedule".into(),
    }
}

/// Block the calling thread until `cond` holds. Returns false if it can never
/// become true because no other thread can run (or the schedule was aborted).
pub fn wait_until(cond: impl Fn() -> bool + Send + 'static) -> bool {
    if cond() {
        return true;
    }
    if !ACTIVE.load(Ordering::Relaxed) || tid().is_none() {
        return free_wait_until(&cond);
    }
    let me = tid().unwrap();
    let _m = MonGuard::new();
    let mut g = STATE.lock().unwrap_or_else(|e| e.into_inner());
    let st = g.as_mut().unwrap();
    if st.free_run {
        drop(g);
        return free_wait_until(&cond);
    }
    st.steps += 1;
    st.status[me] = Status::BlockedCond;
    st.conds[me] = Some(Box::new(cond));
    match pick(st, me, true) {
        Some(next) if next != me => {
            switch_to(st, me, next);
            let mut g = wait_for_baton(g, me);
            let st = g.as_mut().unwrap();
            st.status[me] = Status::Runnable;
            let free = st.free_run;
            let c = st.conds[me].take();
            drop(g);
            match c {
                // Released by free-run, not by the condition.
                Some(c) if free => free_wait_until(&*c),
                Some(c) => c(),
                None => true,
            }
        }
        Some(_) => {
            st.status[me] = Status::Runnable;
            st.conds[me] = None;
            true
        }
        None => {
            st.status[me] = Status::Runnable;
            st.conds[me] = None;
            false
        }
    }
}

fn free_wait_until(cond: &dyn Fn() -> bool) -> bool {
    let mut spins = 0u64;
    while !cond() {
        if aborted() {
            return false;
        }
        spins += 1;
        if spins > 5_000_000 {
            return false;
        }
        std::thread::yield_now();
    }
    true
}

/// Let any other thread that can run do so.
pub fn yield_now() {
    if !ACTIVE.load(Ordering::Relaxed) {
        std::thread::yield_now();
        return;
    }
    let Some(me) = tid() else { return };
    let _m = MonGuard::new();
    let mut g = STATE.lock().unwrap_or_else(|e| e.into_inner());
    let st = g.as_mut().unwrap();
    if st.free_run {
        drop(g);
        std::thread::yield_now();
        return;
    }
    st.steps += 1;
    if st.steps > st.max_steps {
        st.free_run = true;
        notify_all();
        return;
    }
    // PCT: a thread that yields (a busy-wait loop, the simulated kernel thread) drops to the
    // lowest priority, otherwise a spinning high-priority thread starves the thread it waits for.
    if let Some(p) = st.pct.as_mut() {
        let low = p.prio.iter().copied().min().unwrap_or(1).saturating_sub(1);
        p.prio[me] = low;
    }
    match pick(st, me, true) {
        Some(next) if next != me => {
            switch_to(st, me, next);
            let _g = wait_for_baton(g, me);
        }
        _ => {}
    }
}

/// Number of threads that are neither finished nor able to run right now
/// (excluding the caller).
pub fn others_all_blocked() -> bool {
    let Some(me) = tid() else { return false };
    let _m = MonGuard::new();
    let mut g = STATE.lock().unwrap_or_else(|e| e.into_inner());
    let Some(st) = g.as_mut() else { return false };
    let n = st.status.len();
    (0..n).filter(|i| *i != me).all(|i| match st.status[i] {
        Status::Finished => true,
        Status::BlockedCond => !st.conds[i].as_ref().map(|c| c()).unwrap_or(true),
        _ => false,
    })
}

/// Free-running threads (E3): number of harness threads that may still post.
pub static FREE_THREADS: std::sync::atomic::AtomicUsize = std::sync::atomic::AtomicUsize::new(0);

fn free_wait_for_cq(fd: i32, want: u32) -> bool {
    // Without a scheduler: spin while other free-running threads exist.
    let mut spins = 0u32;
    loop {
        if kernel_ready(fd, want) {
            return true;
        }
        if FREE_THREADS.load(Ordering::Acquire) <= 1 {
            // Give stragglers one more chance.
            std::thread::yield_now();
            return kernel_ready(fd, want);
        }
        spins += 1;
        if spins > 2_000_000 {
            return false;
        }
        std::thread::yield_now();
    }
}

pub struct RunStats {
    pub steps: u64,
    pub switches: u64,
    pub trace_hash: u64,
    pub budget_exhausted: bool,
    pub lock_blocks: u64,
    pub kernel_blocks: u64,
    pub points_by_id: [u64; 16],
}

#[derive(Clone, Copy)]
pub enum Policy {
    /// Switch with the given per-mille probability at every point.
    Random(u64),
    /// PCT with `d` priority change points over an estimated `k` steps.
    Pct(u32, u64),
}

pub fn install_hooks() {
    a10::verif::install_sched(a10::verif::Sched { active, point, lock_blocked });
}

/// Run `threads` under the scheduler until all of them finished.
pub fn run(threads: Vec<Box<dyn FnOnce() + Send>>, seed: u64, policy: Policy, max_steps: u64) -> RunStats {
    let n = threads.len();
    let mut rng = Rng::new(seed);
    let (switch_pm, pct) = match policy {
        Policy::Random(pm) => (pm, None),
        Policy::Pct(d, k) => {
            let mut prio: Vec<u32> = (0..n as u32).map(|i| 1_000_000 + i).collect();
            rng.shuffle(&mut prio);
            let change_at: Vec<u64> = (0..d).map(|_| 1 + rng.below(k.max(1))).collect();
            (0, Some(Pct { prio, change_at }))
        }
    };
    let first = rng.below(n as u64) as usize;
    {
        let _m = MonGuard::new();
        let mut g = STATE.lock().unwrap_or_else(|e| e.into_inner());
        *g = Some(State {
            running: true,
            current: first,
            status: vec![Status::Runnable; n],
            rng,
            switch_pm,
            steps: 0,
            max_steps,
            trace_hash: 0,
            switches: 0,
            free_run: false,
            pct,
            points_by_id: [0; 16],
            lock_blocks: 0,
            kernel_blocks: 0,
            conds: (0..n).map(|_| None).collect(),
            epoch: 0,
            blocked_epoch: vec![0; n],
        });
    }
    ABORT.store(false, Ordering::SeqCst);
    ACTIVE.store(true, Ordering::SeqCst);
    let mut handles = Vec::new();
    for (i, f) in threads.into_iter().enumerate() {
        handles.push(
            std::thread::Builder::new()
                .name(format!("sched-{i}"))
                .spawn(move || {
                    TID.with(|t| t.set(Some(i)));
                    {
                        let g = STATE.lock().unwrap_or_else(|e| e.into_inner());
                        let _g = wait_for_baton(g, i);
                    }
                    let r = std::panic::catch_unwind(std::panic::AssertUnwindSafe(f));
                    // Finished: hand the baton on.
                    {
                        let _m = MonGuard::new();
                        let mut g = STATE.lock().unwrap_or_else(|e| e.into_inner());
                        let st = g.as_mut().unwrap();
                        st.status[i] = Status::Finished;
                        if !st.free_run {
                            match pick(st, i, true) {
                                Some(next) if next != i => switch_to(st, i, next),
                                _ => {
                                    // Nobody runnable: if unfinished threads remain they are
                                    // blocked in the kernel forever; let them find out.
                                    if st.status.iter().any(|s| !matches!(s, Status::Finished)) {
                                        st.free_run = true;
                                        notify_all();
                                    }
                                }
                            }
                        }
                    }
                    TID.with(|t| t.set(None));
                    if let Err(p) = r {
                        std::panic::resume_unwind(p);
                    }
                })
                .expect("spawn"),
        );
    }
    let mut panicked = None;
    for h in handles {
        if let Err(p) = h.join() {
            panicked = Some(p);
        }
    }
    ACTIVE.store(false, Ordering::SeqCst);
    let st = {
        let _m = MonGuard::new();
        STATE.lock().unwrap_or_else(|e| e.into_inner()).take().unwrap()
    };
    if let Some(p) = panicked {
        std::panic::resume_unwind(p);
    }
    RunStats {
        steps: st.steps,
        switches: st.switches,
        trace_hash: st.trace_hash,
        budget_exhausted: st.free_run && st.steps > st.max_steps,
        lock_blocks: st.lock_blocks,
        kernel_blocks: st.kernel_blocks,
        points_by_id: st.points_by_id,
    }
}
