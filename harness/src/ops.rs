//! Type-erased a10 operations the scenario engines can drive generically.

#![allow(dead_code)]

use std::future::Future;
use std::io;
use std::pin::Pin;
use std::sync::Arc;
use std::task::{Context, Poll};

use a10::fd::Kind;
use a10::io::{ReadBuf, ReadBufPool};
use a10::{AsyncFd, Extract, SubmissionQueue};

use crate::rng::Rng;

/// Normalised outcome of an operation.
pub struct Outcome {
    /// `Ok(value)` (count, descriptor number, 0) or `Err(errno)`; errno 0 for
    /// errors without an OS error code (the kind's name is in `extra`).
    pub res: Result<i64, i32>,
    /// Multishot: the stream ended (`None`).
    pub end: bool,
    /// Bytes produced for the caller (read data) if any.
    pub data: Option<Vec<u8>>,
    /// Descriptors handed to the caller.
    pub afds: Vec<AsyncFd>,
    /// Pool buffers handed to the caller.
    pub rbufs: Vec<ReadBuf>,
    pub extra: String,
}

impl Outcome {
    pub fn ok(v: i64) -> Outcome {
        Outcome { res: Ok(v), end: false, data: None, afds: Vec::new(), rbufs: Vec::new(), extra: String::new() }
    }
    pub fn err(e: &io::Error) -> Outcome {
        Outcome {
            res: Err(e.raw_os_error().unwrap_or(0)),
            end: false,
            data: None,
            afds: Vec::new(),
            rbufs: Vec::new(),
            extra: format!("{:?}", e.kind()),
        }
    }
    pub fn end() -> Outcome {
        Outcome { res: Ok(0), end: true, data: None, afds: Vec::new(), rbufs: Vec::new(), extra: String::new() }
    }
    pub fn with_data(mut self, d: Vec<u8>) -> Outcome {
        self.data = Some(d);
        self
    }
    pub fn brief(&self) -> String {
        if self.end {
            return "end".into();
        }
        match &self.res {
            Ok(v) => format!("ok({v})"),
            Err(e) => format!("err({e},{})", self.extra),
        }
    }
}

pub trait DynOp {
    fn poll(&mut self, cx: &mut Context<'_>) -> Poll<Outcome>;
}

struct FutOp<F: Future, M> {
    fut: Pin<Box<F>>,
    map: M,
}

impl<F: Future, M: FnMut(F::Output) -> Outcome> DynOp for FutOp<F, M> {
    fn poll(&mut self, cx: &mut Context<'_>) -> Poll<Outcome> {
        match self.fut.as_mut().poll(cx) {
            Poll::Ready(out) => Poll::Ready((self.map)(out)),
            Poll::Pending => Poll::Pending,
        }
    }
}

pub fn fut_op<F, M>(fut: F, map: M) -> Box<dyn DynOp>
where
    F: Future + 'static,
    M: FnMut(F::Output) -> Outcome + 'static,
{
    Box::new(FutOp { fut: Box::pin(fut), map })
}

struct IterOp<I, T, M> {
    it: Pin<Box<I>>,
    next: fn(Pin<&mut I>, &mut Context<'_>) -> Poll<Option<T>>,
    map: M,
}

impl<I, T, M: FnMut(T) -> Outcome> DynOp for IterOp<I, T, M> {
    fn poll(&mut self, cx: &mut Context<'_>) -> Poll<Outcome> {
        match (self.next)(self.it.as_mut(), cx) {
            Poll::Ready(Some(item)) => Poll::Ready((self.map)(item)),
            Poll::Ready(None) => Poll::Ready(Outcome::end()),
            Poll::Pending => Poll::Pending,
        }
    }
}

pub fn iter_op<I: 'static, T: 'static, M: FnMut(T) -> Outcome + 'static>(
    it: I,
    next: fn(Pin<&mut I>, &mut Context<'_>) -> Poll<Option<T>>,
    map: M,
) -> Box<dyn DynOp> {
    Box::new(IterOp { it: Box::pin(it), next, map })
}

fn map_unit(r: io::Result<()>) -> Outcome {
    match r {
        Ok(()) => Outcome::ok(0),
        Err(e) => Outcome::err(&e),
    }
}
fn map_count(r: io::Result<usize>) -> Outcome {
    match r {
        Ok(n) => Outcome::ok(n as i64),
        Err(e) => Outcome::err(&e),
    }
}
fn map_vec(before: usize) -> impl FnMut(io::Result<Vec<u8>>) -> Outcome {
    move |r| match r {
        Ok(v) => Outcome::ok((v.len() - before) as i64).with_data(v),
        Err(e) => Outcome::err(&e),
    }
}
fn map_afd(r: io::Result<AsyncFd>) -> Outcome {
    match r {
        Ok(fd) => {
            let mut o = Outcome::ok(raw_of(&fd));
            o.afds.push(fd);
            o
        }
        Err(e) => Outcome::err(&e),
    }
}

/// Descriptor number (for direct descriptors the slot index) of an `AsyncFd`.
pub fn raw_of(fd: &AsyncFd) -> i64 {
    use std::os::fd::AsRawFd;
    match fd.as_fd() {
        Some(b) => i64::from(b.as_raw_fd()),
        None => {
            // Debug output is "AsyncFd { fd: N, kind: Direct }".
            let s = format!("{fd:?}");
            let n = s.split("fd: ").nth(1).and_then(|r| r.split(',').next()).and_then(|n| n.trim().parse::<i64>().ok());
            n.unwrap_or(-1)
        }
    }
}

/// Context ops are created in.
pub struct Env {
    pub sq: SubmissionQueue,
    /// A regular descriptor the ops run on (leaked reference, reclaimed by the world).
    pub fd: &'static AsyncFd,
    /// Optional direct descriptor.
    pub dfd: Option<&'static AsyncFd>,
    pub pool: Option<ReadBufPool>,
    pub direct_enabled: bool,
}

#[derive(Copy, Clone, Debug, PartialEq, Eq, Hash)]
pub enum Kind_ {
    Read,
    ReadAt,
    ReadVectored,
    ReadN,
    ReadPool,
    /// A pool read into a `ReadBuf` the caller already owns (see `World::new_op`).
    ReadPoolReuse,
    MultishotRead,
    Write,
    WriteStatic,
    WriteArc,
    WriteExtract,
    WriteVectored,
    WriteAll,
    WriteAllVectored,
    Send,
    SendZc,
    SendTo,
    SendToZc,
    SendVectored,
    SendVectoredZc,
    SendAll,
    Recv,
    RecvPool,
    MultishotRecv,
    RecvVectored,
    RecvFrom,
    RecvN,
    Accept,
    AcceptNoAddr,
    MultishotAccept,
    /// Accept on a listener that is a direct descriptor (results are direct descriptors).
    AcceptDirect,
    MultishotAcceptDirect,
    Connect,
    Bind,
    Listen,
    Shutdown,
    SocketName,
    GetSockOpt,
    SetSockOpt,
    Socket,
    SocketDirect,
    Open,
    OpenDirect,
    OpenExtract,
    OpenDirectExtract,
    CreateDir,
    Rename,
    RemoveFile,
    SyncAll,
    Metadata,
    Advise,
    Allocate,
    Truncate,
    Splice,
    Pipe,
    PipeDirect,
    WaitId,
    MemAdvise,
    ToDirect,
    ToFile,
    Close,
}

pub const ALL_KINDS: &[Kind_] = &[
    Kind_::Read,
    Kind_::ReadAt,
    Kind_::ReadVectored,
    Kind_::ReadN,
    Kind_::ReadPool,
    Kind_::ReadPoolReuse,
    Kind_::MultishotRead,
    Kind_::Write,
    Kind_::WriteStatic,
    Kind_::WriteArc,
    Kind_::WriteExtract,
    Kind_::WriteVectored,
    Kind_::WriteAll,
    Kind_::WriteAllVectored,
    Kind_::Send,
    Kind_::SendZc,
    Kind_::SendTo,
    Kind_::SendToZc,
    Kind_::SendVectored,
    Kind_::SendVectoredZc,
    Kind_::SendAll,
    Kind_::Recv,
    Kind_::RecvPool,
    Kind_::MultishotRecv,
    Kind_::RecvVectored,
    Kind_::RecvFrom,
    Kind_::RecvN,
    Kind_::Accept,
    Kind_::AcceptNoAddr,
    Kind_::MultishotAccept,
    Kind_::AcceptDirect,
    Kind_::MultishotAcceptDirect,
    Kind_::Connect,
    Kind_::Bind,
    Kind_::Listen,
    Kind_::Shutdown,
    Kind_::SocketName,
    Kind_::GetSockOpt,
    Kind_::SetSockOpt,
    Kind_::Socket,
    Kind_::SocketDirect,
    Kind_::Open,
    Kind_::OpenDirect,
    Kind_::OpenExtract,
    Kind_::OpenDirectExtract,
    Kind_::CreateDir,
    Kind_::Rename,
    Kind_::RemoveFile,
    Kind_::SyncAll,
    Kind_::Metadata,
    Kind_::Advise,
    Kind_::Allocate,
    Kind_::Truncate,
    Kind_::Splice,
    Kind_::Pipe,
    Kind_::PipeDirect,
    Kind_::WaitId,
    Kind_::MemAdvise,
    Kind_::ToDirect,
    Kind_::ToFile,
    Kind_::Close,
];

#[derive(Copy, Clone, Debug, PartialEq, Eq)]
pub enum Class {
    Single,
    Multi,
    /// Zero-copy: two completions.
    TwoStep,
    /// Composite futures issuing several requests (`*_all`, `*_n`).
    Composite,
}

impl Kind_ {
    pub fn class(self) -> Class {
        use Kind_::*;
        match self {
            MultishotRead | MultishotRecv | MultishotAccept | MultishotAcceptDirect => Class::Multi,
            SendZc | SendToZc | SendVectoredZc => Class::TwoStep,
            ReadN | WriteAll | WriteAllVectored | SendAll | RecvN => Class::Composite,
            _ => Class::Single,
        }
    }
    pub fn needs_pool(self) -> bool {
        matches!(self, Kind_::ReadPool | Kind_::ReadPoolReuse | Kind_::MultishotRead | Kind_::RecvPool | Kind_::MultishotRecv)
    }
    pub fn needs_direct(self) -> bool {
        matches!(self, Kind_::SocketDirect | Kind_::OpenDirect | Kind_::OpenDirectExtract | Kind_::PipeDirect | Kind_::ToDirect | Kind_::ToFile | Kind_::AcceptDirect | Kind_::MultishotAcceptDirect)
    }
    /// Creates descriptors for the caller.
    pub fn creates_fd(self) -> bool {
        use Kind_::*;
        matches!(
            self,
            Accept | AcceptNoAddr | MultishotAccept | AcceptDirect | MultishotAcceptDirect | Socket | SocketDirect | Open | OpenDirect | OpenExtract | OpenDirectExtract | Pipe | PipeDirect | ToDirect | ToFile
        )
    }
    /// Result is a byte count chosen by the kernel.
    pub fn is_count(self) -> bool {
        use Kind_::*;
        matches!(
            self,
            Read | ReadAt | ReadVectored | ReadPool | ReadPoolReuse | MultishotRead | Write | WriteStatic | WriteArc | WriteExtract | WriteVectored | Send | SendZc
                | SendTo | SendToZc | SendVectored | SendVectoredZc | Recv | RecvPool | MultishotRecv | RecvVectored | RecvFrom | Splice
        )
    }
    pub fn name(self) -> String {
        format!("{self:?}")
    }
}

/// Size parameter used by buffer-carrying ops.
pub const BUF_LEN: usize = 48;

fn payload(rng: &mut Rng, n: usize) -> Vec<u8> {
    (0..n).map(|_| rng.next() as u8).collect()
}

fn sockaddr_v4(port: u16) -> std::net::SocketAddr {
    std::net::SocketAddr::from(([127, 0, 0, 1], port))
}

/// Create an operation of `kind`.
/// A pool read that appends to a buffer the caller owns already.
pub fn reuse_read(env: &Env, buf: ReadBuf) -> Box<dyn DynOp> {
    let before = buf.len();
    fut_op(env.fd.read(buf), move |r: io::Result<ReadBuf>| match r {
        Ok(b) => {
            // The operation's result is what this read appended.
            let mut o = Outcome::ok(b.len() as i64 - before as i64).with_data(b.as_slice().to_vec());
            o.rbufs.push(b);
            o
        }
        Err(e) => Outcome::err(&e),
    })
}

pub fn make(kind: Kind_, env: &Env, rng: &mut Rng) -> Box<dyn DynOp> {
    use Kind_::*;
    let fd: &'static AsyncFd = env.fd;
    let sq = env.sq.clone();
    match kind {
        Read => fut_op(fd.read(Vec::with_capacity(BUF_LEN)), map_vec(0)),
        ReadAt => {
            let mut v = Vec::with_capacity(BUF_LEN + 5);
            v.extend_from_slice(b"keep!");
            fut_op(fd.read(v).from(rng.below(1 << 40)), map_vec(5))
        }
        ReadVectored => fut_op(
            fd.read_vectored([Vec::with_capacity(8), Vec::with_capacity(16), Vec::with_capacity(24)]),
            |r: io::Result<[Vec<u8>; 3]>| match r {
                Ok(bufs) => {
                    let all: Vec<u8> = bufs.iter().flat_map(|b| b.iter().copied()).collect();
                    Outcome::ok(all.len() as i64).with_data(all)
                }
                Err(e) => Outcome::err(&e),
            },
        ),
        ReadN => fut_op(fd.read_n(Vec::with_capacity(BUF_LEN), 24), map_vec(0)),
        ReadPool | ReadPoolReuse => {
            let pool = env.pool.as_ref().expect("pool");
            fut_op(fd.read(pool.get()), |r: io::Result<ReadBuf>| match r {
                Ok(b) => {
                    let mut o = Outcome::ok(b.len() as i64).with_data(b.as_slice().to_vec());
                    o.rbufs.push(b);
                    o
                }
                Err(e) => Outcome::err(&e),
            })
        }
        MultishotRead => {
            let pool = env.pool.as_ref().expect("pool").clone();
            iter_op(fd.multishot_read(pool), |it, cx| it.poll_next(cx), |r: io::Result<ReadBuf>| match r {
                Ok(b) => {
                    let mut o = Outcome::ok(b.len() as i64).with_data(b.as_slice().to_vec());
                    o.rbufs.push(b);
                    o
                }
                Err(e) => Outcome::err(&e),
            })
        }
        Write => fut_op(fd.write(payload(rng, BUF_LEN)), map_count),
        WriteStatic => {
            let payload: &'static str = "static payload that is forty-eight bytes long!!!";
            // Under Miri the simulated kernel can only turn the address in the
            // submission back into a pointer if the provenance was exposed (heap
            // blocks are exposed by the allocator monitor, statics are not).
            let _ = payload.as_ptr().expose_provenance();
            fut_op(fd.write(payload), map_count)
        }
        WriteArc => {
            let a: Arc<[u8]> = Arc::from(payload(rng, BUF_LEN).into_boxed_slice());
            fut_op(fd.write(a).at(rng.below(1 << 33)), map_count)
        }
        WriteExtract => fut_op(fd.write(payload(rng, BUF_LEN)).extract(), |r: io::Result<(Vec<u8>, usize)>| match r {
            Ok((b, n)) => Outcome::ok(n as i64).with_data(b),
            Err(e) => Outcome::err(&e),
        }),
        WriteVectored => fut_op(fd.write_vectored([payload(rng, 8), payload(rng, 16), payload(rng, 24)]), map_count),
        WriteAll => fut_op(fd.write_all(payload(rng, BUF_LEN)), map_unit),
        WriteAllVectored => fut_op(fd.write_all_vectored([payload(rng, 8), payload(rng, 16), payload(rng, 24)]), map_unit),
        Send => fut_op(fd.send(payload(rng, BUF_LEN)), map_count),
        SendZc => fut_op(fd.send(payload(rng, BUF_LEN)).zc(), map_count),
        SendTo => fut_op(fd.send_to(payload(rng, BUF_LEN), sockaddr_v4(7001)), map_count),
        SendToZc => fut_op(fd.send_to(payload(rng, BUF_LEN), sockaddr_v4(7002)).zc(), map_count),
        SendVectored => fut_op(fd.send_vectored([payload(rng, 8), payload(rng, 40)]), map_count),
        SendVectoredZc => fut_op(fd.send_vectored([payload(rng, 8), payload(rng, 40)]).zc(), map_count),
        SendAll => fut_op(fd.send_all(payload(rng, BUF_LEN)), map_unit),
        Recv => fut_op(fd.recv(Vec::with_capacity(BUF_LEN)), map_vec(0)),
        RecvPool => {
            let pool = env.pool.as_ref().expect("pool");
            fut_op(fd.recv(pool.get()), |r: io::Result<ReadBuf>| match r {
                Ok(b) => {
                    let mut o = Outcome::ok(b.len() as i64).with_data(b.as_slice().to_vec());
                    o.rbufs.push(b);
                    o
                }
                Err(e) => Outcome::err(&e),
            })
        }
        MultishotRecv => {
            let pool = env.pool.as_ref().expect("pool").clone();
            iter_op(fd.multishot_recv(pool), |it, cx| it.poll_next(cx), |r: io::Result<ReadBuf>| match r {
                Ok(b) => {
                    let mut o = Outcome::ok(b.len() as i64).with_data(b.as_slice().to_vec());
                    o.rbufs.push(b);
                    o
                }
                Err(e) => Outcome::err(&e),
            })
        }
        RecvVectored => fut_op(
            fd.recv_vectored([Vec::with_capacity(16), Vec::with_capacity(32)]),
            |r: io::Result<([Vec<u8>; 2], i32)>| match r {
                Ok((bufs, _)) => {
                    let all: Vec<u8> = bufs.iter().flat_map(|b| b.iter().copied()).collect();
                    Outcome::ok(all.len() as i64).with_data(all)
                }
                Err(e) => Outcome::err(&e),
            },
        ),
        RecvFrom => fut_op(
            fd.recv_from::<_, std::net::SocketAddr>(Vec::with_capacity(BUF_LEN)),
            |r: io::Result<(Vec<u8>, std::net::SocketAddr, i32)>| match r {
                Ok((b, a, _)) => {
                    let mut o = Outcome::ok(b.len() as i64).with_data(b);
                    o.extra = format!("{a}");
                    o
                }
                Err(e) => Outcome::err(&e),
            },
        ),
        RecvN => fut_op(fd.recv_n(Vec::with_capacity(BUF_LEN), 24), map_vec(0)),
        Accept => fut_op(fd.accept::<std::net::SocketAddr>(), |r: io::Result<(AsyncFd, std::net::SocketAddr)>| match r {
            Ok((s, a)) => {
                let mut o = Outcome::ok(raw_of(&s));
                o.afds.push(s);
                o.extra = format!("{a}");
                o
            }
            Err(e) => Outcome::err(&e),
        }),
        AcceptNoAddr => fut_op(fd.accept::<a10::net::NoAddress>(), |r: io::Result<(AsyncFd, a10::net::NoAddress)>| match r {
            Ok((s, _)) => {
                let mut o = Outcome::ok(raw_of(&s));
                o.afds.push(s);
                o
            }
            Err(e) => Outcome::err(&e),
        }),
        MultishotAccept => iter_op(fd.multishot_accept(), |it, cx| it.poll_next(cx), map_afd),
        AcceptDirect => fut_op(env.dfd.expect("direct fd").accept::<a10::net::NoAddress>(), |r: io::Result<(AsyncFd, a10::net::NoAddress)>| match r {
            Ok((afd, _)) => map_afd(Ok(afd)),
            Err(e) => Outcome::err(&e),
        }),
        MultishotAcceptDirect => iter_op(env.dfd.expect("direct fd").multishot_accept(), |it, cx| it.poll_next(cx), map_afd),
        Connect => fut_op(fd.connect(sockaddr_v4(7003)), map_unit),
        Bind => fut_op(fd.bind(sockaddr_v4(7004)), map_unit),
        Listen => fut_op(fd.listen(128), map_unit),
        Shutdown => fut_op(fd.shutdown(std::net::Shutdown::Write), map_unit),
        SocketName => fut_op(fd.local_addr::<std::net::SocketAddr>(), |r: io::Result<std::net::SocketAddr>| match r {
            Ok(a) => {
                let mut o = Outcome::ok(0);
                o.extra = format!("{a}");
                o
            }
            Err(e) => Outcome::err(&e),
        }),
        GetSockOpt => fut_op(fd.socket_option::<a10::net::option::RecvBuf>(), |r: io::Result<u32>| match r {
            Ok(v) => Outcome::ok(i64::from(v)),
            Err(e) => Outcome::err(&e),
        }),
        SetSockOpt => fut_op(fd.set_socket_option::<a10::net::option::RecvBuf>(4096), map_unit),
        Socket => fut_op(
            a10::net::socket(sq, a10::net::Domain::IPV4, a10::net::Type::STREAM, None),
            map_afd,
        ),
        SocketDirect => fut_op(
            a10::net::socket(sq, a10::net::Domain::IPV4, a10::net::Type::STREAM, None).kind(Kind::Direct),
            map_afd,
        ),
        Open => fut_op(a10::fs::open_file(sq, "/nonexistent/verif/file".into()), map_afd),
        OpenDirect => fut_op(
            a10::fs::OpenOptions::new().read().kind(Kind::Direct).open(sq, "/nonexistent/verif/direct".into()),
            map_afd,
        ),
        OpenExtract => fut_op(a10::fs::open_file(sq, "/nonexistent/verif/extract".into()).extract(), |r: io::Result<(AsyncFd, std::path::PathBuf)>| map_afd(r.map(|x| x.0))),
        OpenDirectExtract => fut_op(
            a10::fs::OpenOptions::new().read().kind(Kind::Direct).open(sq, "/nonexistent/verif/direct-extract".into()).extract(),
            |r: io::Result<(AsyncFd, std::path::PathBuf)>| map_afd(r.map(|x| x.0)),
        ),
        CreateDir => fut_op(a10::fs::create_dir(sq, "/nonexistent/verif/dir".into()), map_unit),
        Rename => fut_op(a10::fs::rename(sq, "/nonexistent/verif/a".into(), "/nonexistent/verif/b".into()), map_unit),
        RemoveFile => fut_op(a10::fs::remove_file(sq, "/nonexistent/verif/rm".into()), map_unit),
        SyncAll => fut_op(fd.sync_all(), map_unit),
        Metadata => fut_op(fd.metadata(), |r: io::Result<a10::fs::Metadata>| match r {
            Ok(_) => Outcome::ok(0),
            Err(e) => Outcome::err(&e),
        }),
        Advise => fut_op(fd.advise(0, 4096, a10::fs::AdviseFlag::SEQUENTIAL), map_unit),
        Allocate => fut_op(fd.allocate(0, 4096), map_unit),
        Truncate => fut_op(fd.truncate(rng.below(1 << 20)), map_unit),
        Splice => {
            use std::os::fd::BorrowedFd;
            let target = unsafe { BorrowedFd::borrow_raw(1) };
            fut_op(fd.splice_to(target, 64), map_count)
        }
        Pipe => fut_op(a10::pipe::pipe(sq), |r: io::Result<[AsyncFd; 2]>| match r {
            Ok([a, b]) => {
                let mut o = Outcome::ok(raw_of(&a));
                o.extra = format!("{}", raw_of(&b));
                o.afds.push(a);
                o.afds.push(b);
                o
            }
            Err(e) => Outcome::err(&e),
        }),
        PipeDirect => fut_op(a10::pipe::pipe(sq).kind(Kind::Direct), |r: io::Result<[AsyncFd; 2]>| match r {
            Ok([a, b]) => {
                let mut o = Outcome::ok(raw_of(&a));
                o.extra = format!("{}", raw_of(&b));
                o.afds.push(a);
                o.afds.push(b);
                o
            }
            Err(e) => Outcome::err(&e),
        }),
        WaitId => fut_op(
            a10::process::wait(sq, a10::process::WaitOn::Process(12345)).flags(a10::process::WaitOption::EXITED),
            |r: io::Result<a10::process::WaitInfo>| match r {
                Ok(_) => Outcome::ok(0),
                Err(e) => Outcome::err(&e),
            },
        ),
        MemAdvise => fut_op(a10::mem::advise(sq, 0x10000 as *mut (), 4096, a10::mem::AdviseFlag::NORMAL), map_unit),
        ToDirect => fut_op(fd.to_direct_descriptor(), map_afd),
        ToFile => fut_op(env.dfd.expect("direct fd").to_file_descriptor(), map_afd),
        Close => {
            // Closes a descriptor of its own.
            let raw = crate::mon::fds::issue("close-op");
            let own = unsafe { AsyncFd::from_raw_fd(raw, sq) };
            fut_op(own.close(), map_unit)
        }
    }
}
