//! A "world": one ring on the simulated kernel plus the operations a history
//! runs on it, with the boundary bookkeeping the oracles need.

#![allow(dead_code)]

use std::sync::Arc;
use std::task::{Context, Poll, Waker};
use std::time::Duration;

use a10::io::{ReadBuf, ReadBufPool};
use a10::{AsyncFd, Ring, SubmissionQueue};

use crate::mon::alloc;
use crate::mon::fds;
use crate::mon::waker::{WakerState, new_waker};
use crate::ops::{self, Class, DynOp, Env, Kind_, Outcome};
use crate::rng::{Rng, fnv};
use crate::simk::abi::*;
use crate::simk::{self, Cqe, ReqState, Sqe, effects, enter};

#[derive(Clone, Debug)]
pub struct Violation {
    pub prop: String,
    pub sig: String,
    pub detail: String,
}

#[derive(Copy, Clone, Debug, PartialEq, Eq)]
pub enum SlotState {
    /// Never polled.
    Fresh,
    /// Polled, returned Pending last time.
    Pending,
    /// Multishot: returned an item last time.
    Yielded,
    /// Single: resolved; multishot: returned None.
    Finished,
    Dropped,
}

pub struct Slot {
    pub id: u64,
    pub kind: Kind_,
    pub op: Option<Box<dyn DynOp>>,
    pub waker: Waker,
    pub ws: Arc<WakerState>,
    /// Wake count of `ws` when it was last handed to a poll that returned Pending.
    pub wakes_at_poll: u64,
    pub state: SlotState,
    pub user_data: u64,
    /// Number of submissions seen for this op.
    pub submissions: u32,
    /// Last poll returned Pending without a submission being in flight or queued.
    pub blocked_on_space: bool,
    pub outcomes: Vec<String>,
    /// Multishot: number of items (incl. errors) yielded.
    pub items: usize,
    pub dropped_in_flight: bool,
    pub drop_expected_cancel: bool,
    pub polls: u32,
    /// Position in the drop life cycle (for coverage).
    pub drop_point: &'static str,
    /// The operation was given a `ReadBuf` that already owns a pool slot (address of the slot).
    pub owned_slot: Option<usize>,
}

pub struct WorldCfg {
    pub sq_size: u32,
    pub cq_size: Option<u32>,
    pub direct: bool,
    pub pool: Option<(u16, u32)>,
    pub sq_start: u32,
    pub cq_start: u32,
    pub layout_seed: u64,
}

impl Default for WorldCfg {
    fn default() -> WorldCfg {
        WorldCfg { sq_size: 8, cq_size: None, direct: true, pool: Some((4, 64)), sq_start: 0, cq_start: 0, layout_seed: 0 }
    }
}

pub struct World {
    pub ring: Option<Ring>,
    pub sq: Option<SubmissionQueue>,
    pub ring_fd: i32,
    pub sq_size: u32,
    pub cq_size: u32,
    fd_ptr: *mut AsyncFd,
    dfd_ptr: *mut AsyncFd,
    pub env: Option<Env>,
    pub slots: Vec<Slot>,
    pub trace: Vec<String>,
    pub viol: Vec<Violation>,
    pub kept_afds: Vec<AsyncFd>,
    pub kept_rbufs: Vec<ReadBuf>,
    /// (content hash, length, address) of each kept pool buffer when it was handed over.
    pub kept_sums: Vec<(u64, usize, usize)>,
    pub next_slot: u64,
    /// user_data values that legitimately received a cancel request.
    pub cancels_seen: Vec<u64>,
    /// user_data values a cancel request may legitimately name.
    pub cancel_targets_ok: Vec<u64>,
    pub ring_polls: u64,
    pub leak_baseline: u64,
    /// Number of polls that returned Pending because the queue was full (each
    /// registers one waiter inside a10).
    pub blocked_registrations: u64,
    /// (scenario, seed, index) for streamed reports.
    pub ident: (String, u64, u64),
    /// A memory-safety violation was observed: a10's state can no longer be
    /// trusted, the history is abandoned (everything is leaked).
    pub poisoned: bool,
}

pub fn errno_pool() -> &'static [i32] {
    // Unremarkable errnos a10 passes through untouched (no EINTR, ECANCELED,
    // EINVAL, EOPNOTSUPP/ENOSYS which select fallbacks).
    &[
        libc::EPERM, libc::ENOENT, libc::EIO, libc::ENXIO, libc::E2BIG, libc::EBADF, libc::EAGAIN, libc::ENOMEM,
        libc::EACCES, libc::EFAULT, libc::EBUSY, libc::EEXIST, libc::ENODEV, libc::ENOTDIR, libc::EISDIR, libc::ENFILE,
        libc::EMFILE, libc::EFBIG, libc::ENOSPC, libc::ESPIPE, libc::EROFS, libc::EPIPE, libc::ERANGE, libc::ENAMETOOLONG,
        libc::ENOTEMPTY, libc::ELOOP, libc::EPROTO, libc::EOVERFLOW, libc::ENOTSOCK, libc::EMSGSIZE, libc::EADDRINUSE,
        libc::ENETDOWN, libc::ENETUNREACH, libc::ECONNABORTED, libc::ECONNRESET, libc::ENOBUFS, libc::EISCONN, libc::ENOTCONN,
        libc::ETIMEDOUT, libc::ECONNREFUSED, libc::EHOSTUNREACH, libc::EALREADY, libc::EINPROGRESS,
    ]
}

impl World {
    pub fn new(cfg: &WorldCfg, seed: u64) -> World {
        simk::reset(seed);
        {
            let mut k = simk::k();
            k.knobs.sq_start = cfg.sq_start;
            k.knobs.cq_start = cfg.cq_start;
            k.knobs.layout_seed = cfg.layout_seed;
        }
        let mut config = Ring::config().with_submission_queue_size(cfg.sq_size);
        if let Some(c) = cfg.cq_size {
            config = config.with_completion_queue_size(c);
        }
        if cfg.direct {
            config = config.with_direct_descriptors(4096);
        }
        let ring = alloc::a10(|| config.build()).expect("world: building ring on simk failed");
        let sq = ring.sq();
        let ring_fd = simk::k().only_ring_fd();
        let (sq_size, cq_size) = {
            let k = simk::k();
            let r = &k.rings[&ring_fd];
            (r.sq_entries, r.cq_entries)
        };
        let raw = fds::issue("world-fd");
        let afd = Box::new(unsafe { AsyncFd::from_raw_fd(raw, sq.clone()) });
        let fd_ptr = Box::into_raw(afd);
        let pool = cfg.pool.map(|(n, sz)| alloc::a10(|| ReadBufPool::new(sq.clone(), n, sz)).expect("pool"));
        let mut w = World {
            ring: Some(ring),
            sq: Some(sq.clone()),
            ring_fd,
            sq_size,
            cq_size,
            fd_ptr,
            dfd_ptr: std::ptr::null_mut(),
            env: None,
            slots: Vec::new(),
            trace: Vec::new(),
            viol: Vec::new(),
            kept_afds: Vec::new(),
            kept_rbufs: Vec::new(),
            kept_sums: Vec::new(),
            next_slot: 1,
            cancels_seen: Vec::new(),
            cancel_targets_ok: Vec::new(),
            ring_polls: 0,
            leak_baseline: 0,
            blocked_registrations: 0,
            ident: (String::new(), seed, 0),
            poisoned: false,
        };
        w.env = Some(Env { sq, fd: unsafe { &*fd_ptr }, dfd: None, pool, direct_enabled: cfg.direct });
        if cfg.direct {
            w.ensure_direct_fd();
            w.slots.clear();
            w.trace.clear();
            w.ring_polls = 0;
        }
        w
    }

    /// Create a direct descriptor for ops that need one (runs a to_direct op to completion).
    pub fn ensure_direct_fd(&mut self) {
        if !self.dfd_ptr.is_null() {
            return;
        }
        let i = self.new_op(Kind_::ToDirect, &mut Rng::new(1));
        assert!(self.poll_slot(i).is_pending());
        self.ring_poll();
        let id = *simk::k().inflight().last().expect("to_direct in flight");
        self.complete(id, 1, false);
        self.ring_poll();
        match self.poll_slot(i) {
            Poll::Ready(mut o) if o.res.is_ok() => {
                let d = Box::into_raw(Box::new(o.afds.pop().unwrap()));
                self.dfd_ptr = d;
                self.env.as_mut().unwrap().dfd = Some(unsafe { &*d });
            }
            _ => {
                // The kernel posted the completion and Ring::poll ran twice: a10 did not hand
                // the completion to its operation (every history starts like this, with the
                // counters where the scenario put them).
                self.viol.push(Violation {
                    prop: "C05".into(),
                    sig: "completion-not-delivered:set-up".into(),
                    detail: format!("the first operation of the history (to_direct_descriptor) was completed by the kernel but did not resolve after two Ring::poll calls (completion queue counters started at {:#x})", simk::k().knobs.cq_start),
                });
                self.poisoned = true;
                return;
            }
        }
        self.slots[i].state = SlotState::Dropped;
        self.slots[i].op = None;
    }

    pub fn ev(&mut self, e: String) {
        let _g = alloc::MonGuard::new();
        if self.trace.len() < 400 {
            self.trace.push(e);
        }
    }

    pub fn violation(&mut self, prop: &str, sig: impl Into<String>, detail: impl Into<String>) {
        let _g = alloc::MonGuard::new();
        let v = Violation { prop: prop.into(), sig: sig.into(), detail: detail.into() };
        // Stream it right away: a later crash or hang must not lose it (the first few
        // of every signature in full, the rest is only counted).
        if !crate::out::note_violation(&v.prop, &v.sig) {
            self.viol.push(v);
            return;
        }
        println!(
            "{{\"t\":\"viol\",\"prop\":{},\"sig\":{},\"detail\":{},\"scenario\":{},\"seed\":{},\"index\":{},\"trace\":{}}}",
            crate::out::jstr(&v.prop),
            crate::out::jstr(&v.sig),
            crate::out::jstr(&v.detail),
            crate::out::jstr(&self.ident.0),
            self.ident.1,
            self.ident.2,
            crate::out::jlist(&self.trace)
        );
        self.viol.push(v);
    }

    /// Report monitor violations as soon as they exist.
    pub fn flush_early(&mut self) {
        if alloc::pending_violations() > 0 {
            self.collect_monitor_violations();
        }
    }

    pub fn new_op(&mut self, kind: Kind_, rng: &mut Rng) -> usize {
        if matches!(kind, Kind_::ToFile) {
            self.ensure_direct_fd();
        }
        let _g = alloc::MonGuard::new();
        let (waker, ws) = new_waker();
        let id = self.next_slot;
        self.next_slot += 1;
        drop(_g);
        // Constructing the future is an a10 call (allocates the op state).
        let reuse = if kind == Kind_::ReadPoolReuse && !self.kept_rbufs.is_empty() {
            let n = rng.below(self.kept_rbufs.len() as u64) as usize;
            let mut b = self.kept_rbufs.swap_remove(n);
            self.kept_sums.swap_remove(n);
            // Emptied without being released: the buffer still owns its slot.
            match rng.below(3) {
                0 => alloc::a10(|| b.clear()),
                1 => alloc::a10(|| b.truncate(0)),
                _ => {}
            }
            self.trace.push(format!("reuse-rbuf:len={}", b.len()));
            Some(b)
        } else {
            None
        };
        // A ReadBuf handed out by a completed read owns its slot even when it is empty now.
        let owned_slot = reuse.as_ref().map(|b| b.as_slice().as_ptr().addr());
        let op = match reuse {
            Some(b) => alloc::a10(|| ops::reuse_read(self.env.as_ref().unwrap(), b)),
            None => alloc::a10(|| ops::make(kind, self.env.as_ref().unwrap(), rng)),
        };
        let _g = alloc::MonGuard::new();
        self.slots.push(Slot {
            id,
            kind,
            op: Some(op),
            waker,
            ws,
            wakes_at_poll: 0,
            state: SlotState::Fresh,
            user_data: 0,
            submissions: 0,
            blocked_on_space: false,
            outcomes: Vec::new(),
            items: 0,
            dropped_in_flight: false,
            drop_expected_cancel: false,
            polls: 0,
            drop_point: "",
            owned_slot,
        });
        self.trace.push(format!("new#{id}:{kind:?}"));
        self.slots.len() - 1
    }

    /// Keep a pool buffer the caller owns now.
    pub fn keep_rbuf(&mut self, b: ReadBuf) {
        let _g = alloc::MonGuard::new();
        let addr = b.as_slice().as_ptr().addr();
        self.kept_sums.push((fnv(0, b.as_slice()), b.len(), addr));
        self.kept_rbufs.push(b);
    }

    /// Edit a kept pool buffer the way an application consumes its contents;
    /// the edit must not move the buffer (C08/C15: the slot given back on
    /// release is the slot the kernel filled).
    pub fn edit_rbuf(&mut self, n: usize, rng: &mut crate::rng::Rng) {
        let mut moved = None;
        let what;
        {
            let _g = alloc::MonGuard::new();
            let b = &mut self.kept_rbufs[n];
            let (before, len) = (b.as_slice().as_ptr().addr(), b.len());
            what = match rng.below(6) {
                0 if len > 0 => {
                    let k = 1 + rng.below(len as u64) as usize;
                    alloc::a10(|| b.remove(..k));
                    format!("remove(..{k})")
                }
                1 if len > 0 => {
                    let k = rng.below(len as u64) as usize;
                    alloc::a10(|| b.remove(k..));
                    format!("remove({k}..)")
                }
                2 if len > 1 => {
                    let k = rng.below(len as u64 - 1) as usize;
                    let e = k + 1 + rng.below((len - k - 1) as u64) as usize;
                    alloc::a10(|| b.remove(k..e));
                    format!("remove({k}..{e})")
                }
                3 => {
                    let k = rng.below(len as u64 + 1) as usize;
                    alloc::a10(|| b.truncate(k));
                    format!("truncate({k})")
                }
                4 => {
                    alloc::a10(|| b.clear());
                    "clear".to_string()
                }
                _ => {
                    let room = b.capacity().saturating_sub(len);
                    let k = rng.below(room.min(16) as u64 + 1) as usize;
                    let extra = vec![0xE7u8; k];
                    let _ = alloc::a10(|| b.extend_from_slice(&extra));
                    format!("extend({k})")
                }
            };
            let after = b.as_slice().as_ptr().addr();
            if len > 0 && !b.is_empty() && after != before {
                moved = Some((before, after));
            }
            self.kept_sums[n] = (fnv(0, b.as_slice()), b.len(), if b.is_empty() { self.kept_sums[n].2 } else { after });
        }
        self.trace.push(format!("editbuf:{what}"));
        if let Some((before, after)) = moved {
            self.violation("C08", "pool-buffer-start-moved".to_string(), format!("{what} on a ReadBuf moved its start from {before:#x} to {after:#x}: the buffer given back on release is no longer the slot the kernel filled"));
        }
    }

    pub fn drop_rbuf(&mut self, n: usize) {
        let b = self.kept_rbufs.swap_remove(n);
        self.kept_sums.swap_remove(n);
        alloc::a10(|| drop(b));
    }

    /// C08: bytes held in a ReadBuf never change, no two ReadBufs share a buffer.
    pub fn check_rbufs(&mut self) {
        let mut found = Vec::new();
        for (i, b) in self.kept_rbufs.iter().enumerate() {
            let (h, len, addr) = self.kept_sums[i];
            if b.len() != len || fnv(0, b.as_slice()) != h {
                found.push(("pool-buffer-overwritten-while-owned".to_string(), format!("a ReadBuf of {len} bytes at {addr:#x} changed while the caller owned it")));
            }
            if len > 0 {
                for (j, o) in self.kept_sums.iter().enumerate() {
                    if j > i && o.1 > 0 && o.2 == addr {
                        found.push(("pool-buffer-owned-twice".to_string(), format!("two live ReadBufs point at {addr:#x}")));
                    }
                }
            }
        }
        for (sig, d) in found {
            if !self.viol.iter().any(|v| v.sig == sig) {
                self.violation("C08", sig, d);
            }
        }
    }

    /// C08 conservation: with no ReadBuf alive and nothing in flight the kernel
    /// must own every buffer of every pool again.
    pub fn check_pool_conservation(&mut self) {
        let mut found = Vec::new();
        {
            let mut k = simk::k();
            let fd = self.ring_fd;
            let groups: Vec<u16> = k.rings.get(&fd).map(|r| r.pbufs.keys().copied().collect()).unwrap_or_default();
            for g in groups {
                effects::pbuf_audit(&mut k, fd, g);
                let lost: Vec<(u16, u64)> = k.rings[&fd].pbufs[&g].handed_out.iter().map(|(b, r)| (*b, *r)).collect();
                for (bid, req) in lost {
                    let (op, owner, multi) = match k.reqs.get(&req) {
                        Some(r) => (op_name(r.sqe.opcode()), r.owner, r.multishot),
                        None => ("?", 0, false),
                    };
                    let slot = self.slots.iter().find(|s| s.id == owner);
                    let sig = match slot {
                        Some(s) if s.dropped_in_flight && multi => format!("pool-buffer-lost:dropped-multishot:{op}"),
                        Some(s) if s.dropped_in_flight => format!("pool-buffer-lost:abandoned-op:{op}"),
                        Some(s) if s.state == SlotState::Dropped => format!("pool-buffer-lost:uncollected-result:{op}"),
                        _ => format!("pool-buffer-lost:{op}"),
                    };
                    found.push((sig, format!("buffer {bid} of group {g}, selected for request {req} ({op}, op #{owner}), never returned to the kernel although no ReadBuf is alive and nothing is in flight")));
                }
            }
        }
        for (sig, d) in found {
            self.violation("C08", sig, d);
        }
    }

    /// Add an operation that is not in the generic table.
    pub fn add_op(&mut self, name: &str, op: Box<dyn DynOp>) -> usize {
        let _g = alloc::MonGuard::new();
        let (waker, ws) = new_waker();
        let id = self.next_slot;
        self.next_slot += 1;
        self.slots.push(Slot {
            id,
            kind: Kind_::WriteAll,
            op: Some(op),
            waker,
            ws,
            wakes_at_poll: 0,
            state: SlotState::Fresh,
            user_data: 0,
            submissions: 0,
            blocked_on_space: false,
            outcomes: Vec::new(),
            items: 0,
            dropped_in_flight: false,
            drop_expected_cancel: false,
            polls: 0,
            drop_point: "",
            owned_slot: None,
        });
        self.trace.push(format!("new#{id}:{name}"));
        self.slots.len() - 1
    }

    /// Give slot `i` a brand-new waker (the old one must no longer be required).
    pub fn replace_waker(&mut self, i: usize) {
        let _g = alloc::MonGuard::new();
        let (waker, ws) = new_waker();
        self.slots[i].waker = waker;
        self.slots[i].ws = ws;
        self.slots[i].wakes_at_poll = 0;
    }

    fn sq_unsubmitted(&self) -> Vec<Sqe> {
        let mut k = simk::k();
        enter::peek_sq(&mut k, self.ring_fd)
    }

    /// Poll slot `i` once.
    pub fn poll_slot(&mut self, i: usize) -> Poll<Outcome> {
        let before = self.sq_unsubmitted().len();
        let slot = &mut self.slots[i];
        let waker = slot.waker.clone();
        let mut cx = Context::from_waker(&waker);
        slot.polls += 1;
        let wakes_before = slot.ws.wakes();
        let op = slot.op.as_mut().expect("polling dropped op");
        let res = alloc::a10(|| op.poll(&mut cx));
        drop(waker);
        let after = self.sq_unsubmitted();
        // Attribute new submissions.
        let mut new_subs = 0;
        let mut owned_reselect = false;
        {
            let mut k = simk::k();
            for sqe in after.iter().skip(before.min(after.len())) {
                let ud = sqe.user_data();
                if ud > 3 {
                    new_subs += 1;
                    if self.slots[i].owned_slot.is_some() && sqe.buffer_select() {
                        owned_reselect = true;
                    }
                    self.slots[i].user_data = ud;
                    k.owners.insert(ud, self.slots[i].id);
                    effects::hold_published(sqe);
                    // C05: from now on unpublished/returned completion slots name
                    // this live operation: interpreting one resolves it with
                    // the poison result.
                    if self.slots[i].kind.class() == Class::Single && ud & 1 == 0 {
                        if let Some(r) = k.rings.get_mut(&self.ring_fd) {
                            r.trap_user_data = ud;
                        }
                    }
                }
            }
        }
        if owned_reselect {
            let id = self.slots[i].id;
            self.violation("C08", "owned-buffer-read-asks-for-another-buffer", format!("op #{id}: a read into a ReadBuf that already owns a pool slot was submitted with IOSQE_BUFFER_SELECT: the kernel picks a second buffer, which then belongs to nobody"));
        }
        let slot = &mut self.slots[i];
        slot.submissions += new_subs;
        let id = slot.id;
        match &res {
            Poll::Pending => {
                slot.state = SlotState::Pending;
                slot.wakes_at_poll = wakes_before;
                let inflight = self.has_live_request(i) || self.op_has_unconsumed_completion(self.slots[i].user_data);
                let slot = &mut self.slots[i];
                slot.blocked_on_space = new_subs == 0 && !inflight;
                if slot.blocked_on_space {
                    self.blocked_registrations += 1;
                }
                let slot = &mut self.slots[i];
                let b = if slot.blocked_on_space { "(blocked)" } else { "" };
                self.ev(format!("poll#{id}:pending{b}"));
            }
            Poll::Ready(o) => {
                let multi = slot.kind.class() == Class::Multi;
                slot.blocked_on_space = false;
                if multi && !o.end {
                    slot.state = SlotState::Yielded;
                    slot.items += 1;
                } else {
                    slot.state = SlotState::Finished;
                }
                let b = o.brief();
                slot.outcomes.push(b.clone());
                self.ev(format!("poll#{id}:{b}"));
            }
        }
        res
    }

    /// Does slot `i` have a request queued or in flight?
    pub fn has_live_request(&self, i: usize) -> bool {
        let ud = self.slots[i].user_data;
        if ud == 0 {
            return false;
        }
        let id = self.slots[i].id;
        if self.sq_unsubmitted().iter().any(|s| s.user_data() == ud) {
            return true;
        }
        let k = simk::k();
        k.reqs.values().any(|r| r.owner == id && r.state != ReqState::Done)
    }

    /// Requests (ids, in order) submitted for slot `i`.
    pub fn reqs_of(&self, i: usize) -> Vec<u64> {
        let id = self.slots[i].id;
        let k = simk::k();
        let mut v: Vec<u64> = k.reqs.values().filter(|r| r.owner == id).map(|r| r.id).collect();
        v.sort();
        v
    }

    pub fn live_req_of(&self, i: usize) -> Option<u64> {
        let id = self.slots[i].id;
        let k = simk::k();
        k.reqs.values().filter(|r| r.owner == id && r.state != ReqState::Done).map(|r| r.id).max()
    }

    /// Drop the future/iterator of slot `i`.
    pub fn drop_slot(&mut self, i: usize) {
        let id = self.slots[i].id;
        let ud = self.slots[i].user_data;
        let live = self.live_req_of(i);
        let queued = ud != 0 && self.sq_unsubmitted().iter().any(|s| s.user_data() == ud);
        let room = (self.sq_unsubmitted().len() as u32) < self.sq_size;
        let state = self.slots[i].state;
        let before = self.sq_unsubmitted();
        let point = match (state, live.is_some() || queued) {
            (SlotState::Fresh, _) => "never-polled",
            (SlotState::Finished, _) => "finished",
            (_, false) if self.slots[i].blocked_on_space => "blocked-on-space",
            (_, false) => "done-not-collected",
            (_, true) if queued => "queued-not-consumed",
            (SlotState::Yielded, true) => "multishot-mid-stream",
            (_, true) => {
                let k = simk::k();
                if live.map(|l| k.req(l).state == ReqState::AwaitNotif).unwrap_or(false) { "between-two-completions" } else { "in-flight" }
            }
        };
        let op = self.slots[i].op.take();
        alloc::a10(|| drop(op));
        self.flush_early();
        let after = self.sq_unsubmitted();
        let slot = &mut self.slots[i];
        slot.state = SlotState::Dropped;
        slot.drop_point = point;
        let running = live.is_some() || queued;
        slot.dropped_in_flight = running;
        let posted_unconsumed = !running && ud != 0 && self.op_has_unconsumed_completion(ud);
        if running || posted_unconsumed {
            self.cancel_targets_ok.push(ud);
        }
        let slot = &mut self.slots[i];
        if posted_unconsumed {
            // For a10 the operation is still running.
            slot.dropped_in_flight = true;
            slot.drop_point = "completion-posted-not-consumed";
        }
        // Cancel requests queued by this drop.
        let new: Vec<&Sqe> = after.iter().skip(before.len().min(after.len())).collect();
        let cancels: Vec<u64> = new.iter().filter(|s| s.opcode() == OP_ASYNC_CANCEL).map(|s| s.addr()).collect();
        self.ev(format!("drop#{id}:{point}:cancels={}", cancels.len()));
        // C06 oracle (single-threaded form).
        let finished_unconsumed = !running && matches!(point, "done-not-collected");
        if running {
            if room && cancels.is_empty() {
                self.violation("C06", format!("no-cancel-on-drop:{point}"), format!("op #{id} ({:?}) dropped while running with room in the submission queue, no cancel request was queued", self.slots[i].kind));
            }
            for c in &cancels {
                if *c != ud {
                    self.violation("C06", "cancel-wrong-target", format!("drop of op #{id} (user_data {ud:#x}) queued a cancel for {c:#x}"));
                }
            }
            if cancels.len() > 1 {
                self.violation("C06", "cancel-duplicate", format!("drop of op #{id} queued {} cancel requests", cancels.len()));
            }
            self.cancels_seen.extend(cancels.iter().copied());
        } else {
            let _ = finished_unconsumed;
            // Kernel-side view: not running means nothing to cancel. NOTE: an op
            // whose final completion has been posted but not yet consumed by
            // Ring::poll is still "running" for a10; cancelling it is allowed.
            if !cancels.is_empty() && !posted_unconsumed {
                self.violation("C06", format!("cancel-for-idle-op:{point}"), format!("op #{id} dropped in state {point} queued {} cancel request(s)", cancels.len()));
            }
        }
    }

    /// A completion for `ud` sits in the completion queue, unseen by a10.
    fn op_has_unconsumed_completion(&self, ud: u64) -> bool {
        if ud == 0 {
            return false;
        }
        let mut k = simk::k();
        enter::sync_cq(&mut k, self.ring_fd);
        let ring = &k.rings[&self.ring_fd];
        let n = ring.cq_tail.wrapping_sub(ring.cq_seen_head);
        for i in 0..n {
            let slot = (ring.cq_seen_head.wrapping_add(i) & (ring.cq_entries - 1)) as usize;
            let off = ring.cq_off[5] as usize + slot * CQE_SIZE;
            let v = unsafe { ring.cq_ring.ptr.add(off).cast::<u64>().read_unaligned() };
            if v == ud {
                return true;
            }
        }
        ring.backlog.iter().any(|c| c.0.user_data == ud)
    }

    /// `Ring::poll` with a zero timeout.
    pub fn ring_poll(&mut self) {
        self.ring_polls += 1;
        let ring = self.ring.as_mut().expect("ring dropped");
        let r = alloc::consumer(|| ring.poll(Some(Duration::ZERO)));
        if let Err(e) = r {
            self.ev(format!("ringpoll:err({e})"));
        } else {
            self.ev("ringpoll".into());
        }
        {
            let mut k = simk::k();
            enter::sync_cq(&mut k, self.ring_fd);
        }
        self.note_cancels();
    }

    /// Ring::poll until the completion queue and the overflow backlog are empty.
    pub fn ring_poll_drain(&mut self) {
        for _ in 0..64 {
            self.ring_poll();
            let mut k = simk::k();
            enter::flush_backlog(&mut k, self.ring_fd);
            let empty = enter::cq_ready(&mut k, self.ring_fd) == 0 && k.rings[&self.ring_fd].backlog.is_empty();
            let unsub = enter::peek_sq(&mut k, self.ring_fd).len();
            if empty && unsub == 0 {
                return;
            }
        }
    }

    fn note_cancels(&mut self) {
        // Cancel requests consumed by the kernel must target dropped ops.
        let k = simk::k();
        let dropped: Vec<u64> = self.cancel_targets_ok.clone();
        let mut bad = Vec::new();
        for r in k.reqs.values() {
            if r.sqe.opcode() == OP_ASYNC_CANCEL && !dropped.contains(&r.sqe.addr()) {
                bad.push(r.sqe.addr());
            }
        }
        drop(k);
        for b in bad {
            if !self.viol.iter().any(|v| v.sig == "cancel-unknown-target") {
                self.violation("C06", "cancel-unknown-target", format!("kernel received a cancel for {b:#x}, which is not an operation that was dropped while running"));
            }
        }
    }

    /// Complete kernel request `id` (see `effects::complete`).
    pub fn complete(&mut self, id: u64, res: i32, more: bool) -> Cqe {
        let mut k = simk::k();
        let c = effects::complete(&mut k, id, res, more);
        let owner = k.req(id).owner;
        drop(k);
        self.ev(format!("cqe#{owner}:res={}:fl={:#x}", c.res, c.flags));
        self.flush_early();
        c
    }

    /// Slots whose current waker fired since it was handed over.
    pub fn woken(&self, i: usize) -> bool {
        let s = &self.slots[i];
        s.ws.wakes() > s.wakes_at_poll
    }

    /// C03 oracle, call at a quiescent point (after `ring_poll_drain`): every
    /// pending op that has a consumed completion making it ready must have been
    /// woken through its most recent waker.
    pub fn check_wakeups(&mut self) {
        let mut found = Vec::new();
        {
            let k = simk::k();
            for s in &self.slots {
                if s.state != SlotState::Pending || s.op.is_none() || s.blocked_on_space {
                    continue;
                }
                let reqs: Vec<&simk::Req> = k.reqs.values().filter(|r| r.owner == s.id).collect();
                if reqs.is_empty() {
                    continue;
                }
                let multi = s.kind.class() == Class::Multi;
                let last = reqs.iter().max_by_key(|r| r.id).unwrap();
                let ready = if multi {
                    // Any completion not yet yielded.
                    let posted: usize = reqs.iter().map(|r| r.posted.len()).sum();
                    let restarts = reqs.iter().filter(|r| r.state == ReqState::Done && r.id != last.id).count();
                    posted > s.items + restarts
                } else {
                    last.state == ReqState::Done
                };
                if ready && s.ws.wakes() <= s.wakes_at_poll {
                    found.push((s.id, s.kind, multi));
                }
            }
        }
        for (id, kind, multi) in found {
            self.violation(
                "C03",
                format!("lost-wakeup:completion:{}", if multi { "multishot" } else { "single" }),
                format!("op #{id} ({kind:?}) returned Pending, Ring::poll consumed the completion that makes it ready, but its most recent waker was never woken"),
            );
        }
    }

    /// Collect monitor-level violations (allocator, descriptor ledger, simk, log).
    pub fn collect_monitor_violations(&mut self) {
        for v in alloc::take_violations() {
            self.poisoned = true;
            match v.kind {
                alloc::V_FREE_WHILE_HELD => {
                    let (op, owner) = {
                        let k = simk::k();
                        match k.reqs.get(&v.req) {
                            Some(r) => (op_name(r.sqe.opcode()).to_string(), r.owner),
                            None if v.req >> 62 == 1 => ("QUEUED-SQE".to_string(), 0),
                            None => ("BUFRING".to_string(), 0),
                        }
                    };
                    let w = alloc::what::name(v.what);
                    let posted_final = {
                        let k = simk::k();
                        k.reqs.get(&v.req).map(|r| r.state == ReqState::Done).unwrap_or(false)
                    };
                    if v.what == alloc::what::STATE && posted_final {
                        self.violation("C06", format!("op-state-freed-before-completion-consumed:{op}"), format!("operation state at {:#x} of request {} (op #{owner}, {op}) was deallocated while its final completion was still unconsumed in the completion queue (Ring::poll will dereference it)", v.addr, v.req));
                    } else {
                        self.violation("C01", format!("free-while-kernel-held:{op}:{w}"), format!("{w} at {:#x}+{} of request {} (op #{owner}, {op}) was deallocated before the kernel posted the final completion", v.addr, v.size, v.req));
                    }
                }
                alloc::V_DOUBLE_FREE => self.violation("C06", "double-free", format!("block {:#x} (size {}) freed twice", v.addr, v.size)),
                alloc::V_WRITE_AFTER_FREE => self.violation("C01", "write-after-free", format!("freed block of size {} written at {:#x}", v.size, v.addr)),
                _ => {}
            }
        }
        for v in fds::take_violations() {
            self.violation("C07", v.sig, v.detail);
        }
        let kv = simk::k().take_violations();
        for v in kv {
            self.violation(v.prop, v.sig, v.detail);
        }
        for m in crate::mon::logsink::take() {
            if m.contains("unexpected completion") {
                self.violation("C05", "unpublished-or-returned-slot-interpreted", format!("a10 logged: {m}"));
                self.poisoned = true;
            } else {
                self.ev(format!("log:{m}"));
            }
        }
    }

    pub fn signature(&self) -> u64 {
        let mut h = 0;
        for e in &self.trace {
            // Strip addresses/ids that differ between runs of the same shape.
            h = fnv(h, e.as_bytes());
        }
        h
    }

    /// Drop everything in a fixed sane order: ops, kept results, fds, pool, ring, queue.
    pub fn teardown(&mut self) {
        for i in 0..self.slots.len() {
            if self.slots[i].op.is_some() {
                let op = self.slots[i].op.take();
                alloc::a10(|| drop(op));
            }
        }
        let bufs = std::mem::take(&mut self.kept_rbufs);
        self.kept_sums.clear();
        alloc::a10(|| drop(bufs));
        let afds = std::mem::take(&mut self.kept_afds);
        alloc::a10(|| drop(afds));
        if let Some(env) = self.env.take() {
            alloc::a10(|| drop(env));
        }
        if !self.dfd_ptr.is_null() {
            let b = unsafe { Box::from_raw(self.dfd_ptr) };
            self.dfd_ptr = std::ptr::null_mut();
            alloc::a10(|| drop(b));
        }
        if !self.fd_ptr.is_null() {
            let b = unsafe { Box::from_raw(self.fd_ptr) };
            self.fd_ptr = std::ptr::null_mut();
            alloc::a10(|| drop(b));
        }
        if let Some(ring) = self.ring.take() {
            alloc::consumer(|| drop(ring));
        }
        if let Some(sq) = self.sq.take() {
            alloc::a10(|| drop(sq));
        }
        simk::k().sync_fd_events();
    }

    /// Take the pieces for custom teardown orders.
    pub fn take_fd(&mut self) -> Option<Box<AsyncFd>> {
        if self.fd_ptr.is_null() {
            return None;
        }
        let b = unsafe { Box::from_raw(self.fd_ptr) };
        self.fd_ptr = std::ptr::null_mut();
        Some(b)
    }
    pub fn take_dfd(&mut self) -> Option<Box<AsyncFd>> {
        if self.dfd_ptr.is_null() {
            return None;
        }
        let b = unsafe { Box::from_raw(self.dfd_ptr) };
        self.dfd_ptr = std::ptr::null_mut();
        Some(b)
    }
}

impl World {
    /// Leak everything without running any a10 code.
    pub fn abandon(&mut self) {
        for s in self.slots.iter_mut() {
            std::mem::forget(s.op.take());
        }
        std::mem::forget(std::mem::take(&mut self.kept_rbufs));
        std::mem::forget(std::mem::take(&mut self.kept_afds));
        std::mem::forget(self.env.take());
        std::mem::forget(self.ring.take());
        std::mem::forget(self.sq.take());
        self.fd_ptr = std::ptr::null_mut();
        self.dfd_ptr = std::ptr::null_mut();
    }
}

impl Drop for World {
    fn drop(&mut self) {
        if self.poisoned {
            self.abandon();
            return;
        }
        if std::thread::panicking() {
            // Unwinding out of a panic inside a10: do not run a10 code again,
            // leak everything (the next history resets the kernel).
            for s in self.slots.iter_mut() {
                std::mem::forget(s.op.take());
            }
            std::mem::forget(std::mem::take(&mut self.kept_rbufs));
            std::mem::forget(std::mem::take(&mut self.kept_afds));
            std::mem::forget(self.env.take());
            std::mem::forget(self.ring.take());
            std::mem::forget(self.sq.take());
            return;
        }
        self.teardown();
    }
}
