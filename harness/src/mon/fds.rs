//! Descriptor ledger.
//!
//! Regular descriptors handed out by the simulated kernel are real (`eventfd`s,
//! duplicated above a monotonically increasing floor so numbers are never
//! reused within a process). The harness defines the `close` symbol itself, so
//! every `close(2)` in the process is observed.

use std::collections::HashMap;
use std::sync::Mutex;
use std::sync::atomic::{AtomicI32, AtomicU64, Ordering};

use crate::mon::alloc::MonGuard;

#[derive(Copy, Clone, Debug, PartialEq, Eq)]
pub enum How {
    /// `close(2)` system call (a10's synchronous fallback, `OwnedFd` drop, ...).
    Sync,
    /// `IORING_OP_CLOSE` with a regular descriptor.
    Ring,
}

#[derive(Clone, Debug)]
pub struct FdState {
    pub issued: u64,
    pub what: &'static str,
    pub closes: Vec<(How, u64)>,
}

#[derive(Clone, Debug)]
pub struct FdViolation {
    pub sig: String,
    pub detail: String,
}

pub struct Ledger {
    pub fds: HashMap<i32, FdState>,
    pub violations: Vec<FdViolation>,
    pub ring_fd_closed: Vec<i32>,
}

static LEDGER: Mutex<Option<Ledger>> = Mutex::new(None);
static FLOOR: AtomicI32 = AtomicI32::new(1000);
static CLOCK: AtomicU64 = AtomicU64::new(1);
pub static CLOSES_SEEN: AtomicU64 = AtomicU64::new(0);

fn with<R>(f: impl FnOnce(&mut Ledger) -> R) -> R {
    let _g = MonGuard::new();
    let mut l = LEDGER.lock().unwrap_or_else(|e| e.into_inner());
    let ledger = l.get_or_insert_with(|| Ledger {
        fds: HashMap::new(),
        violations: Vec::new(),
        ring_fd_closed: Vec::new(),
    });
    f(ledger)
}

pub fn tick() -> u64 {
    CLOCK.fetch_add(1, Ordering::Relaxed)
}

/// Issue a new real descriptor with a never-before-used number.
pub fn issue(what: &'static str) -> i32 {
    #[cfg(miri)]
    {
        // Miri: no F_DUPFD with a floor; use whatever the shim gives us.
        let mut fds = [0; 2];
        let r = unsafe { libc::pipe(fds.as_mut_ptr()) };
        assert!(r == 0);
        unsafe { libc::close(fds[1]) };
        let _ = what;
        return fds[0];
    }
    #[cfg(not(miri))]
    {
        let ev = unsafe { libc::eventfd(0, libc::EFD_CLOEXEC) };
        assert!(ev >= 0, "eventfd failed");
        let floor = FLOOR.load(Ordering::Relaxed);
        let fd = unsafe { libc::fcntl(ev, libc::F_DUPFD_CLOEXEC, floor) };
        assert!(fd >= floor, "F_DUPFD failed");
        unsafe { raw_close(ev) };
        FLOOR.store(fd + 1, Ordering::Relaxed);
        with(|l| {
            l.fds.insert(
                fd,
                FdState {
                    issued: tick(),
                    what,
                    closes: Vec::new(),
                },
            );
        });
        fd
    }
}

/// Close without going through the interposer.
pub unsafe fn raw_close(fd: i32) -> i32 {
    #[cfg(miri)]
    {
        unsafe { libc::close(fd) }
    }
    #[cfg(not(miri))]
    {
        unsafe { libc::syscall(libc::SYS_close, fd) as i32 }
    }
}

fn record(l: &mut Ledger, fd: i32, how: How) -> bool {
    // Returns true if the close should be forwarded to the OS.
    if (3000..4096).contains(&fd) && !l.fds.contains_key(&fd) {
        l.violations.push(FdViolation {
            sig: "direct-closed-as-regular:close(2)".into(),
            detail: format!("close({fd}) ({how:?}): {fd} is a direct descriptor index, not a regular descriptor"),
        });
        return false;
    }
    if (0..=2).contains(&fd) {
        l.violations.push(FdViolation {
            sig: format!("std-stream-closed:fd={fd}"),
            detail: format!("standard stream {fd} closed ({how:?})"),
        });
        return false;
    }
    match l.fds.get_mut(&fd) {
        Some(st) => {
            st.closes.push((how, tick()));
            if st.closes.len() > 1 {
                let what = st.what;
                let hows: Vec<How> = st.closes.iter().map(|c| c.0).collect();
                l.violations.push(FdViolation {
                    sig: format!("double-close:{what}"),
                    detail: format!("descriptor {fd} ({what}) closed {hows:?}"),
                });
                return false;
            }
            if st.what == "ring" {
                l.ring_fd_closed.push(fd);
            }
            true
        }
        None => true, // Not ours.
    }
}

/// A close requested through the ring (`IORING_OP_CLOSE`); returns the result
/// the kernel would give (0 or -EBADF).
pub fn ring_close(fd: i32) -> i32 {
    let known = with(|l| l.fds.contains_key(&fd) || (0..=2).contains(&fd));
    if !known {
        // Not a descriptor issued by the simulated kernel: really close it.
        let r = unsafe { raw_close(fd) };
        return if r == 0 { 0 } else { -libc::EBADF };
    }
    let forward = with(|l| record(l, fd, How::Ring));
    if forward {
        unsafe { raw_close(fd) };
        0
    } else {
        -libc::EBADF
    }
}

/// The `close(2)` interposer: every close in the process ends up here.
#[cfg(not(miri))]
#[unsafe(no_mangle)]
pub extern "C" fn close(fd: libc::c_int) -> libc::c_int {
    CLOSES_SEEN.fetch_add(1, Ordering::Relaxed);
    let forward = match LEDGER.try_lock() {
        Ok(mut guard) => match guard.as_mut() {
            Some(l) => {
                if l.fds.contains_key(&fd) || (0..=2).contains(&fd) || (3000..4096).contains(&fd) {
                    let _g = MonGuard::new();
                    record(l, fd, How::Sync)
                } else {
                    true
                }
            }
            None => true,
        },
        Err(_) => true,
    };
    if forward {
        unsafe { libc::syscall(libc::SYS_close, fd) as libc::c_int }
    } else {
        // Pretend it worked for std streams, fail for a double close.
        if (0..=2).contains(&fd) {
            0
        } else {
            unsafe { *libc::__errno_location() = libc::EBADF };
            -1
        }
    }
}

pub fn take_violations() -> Vec<FdViolation> {
    with(|l| std::mem::take(&mut l.violations))
}

pub fn take_ring_fd_closed() -> Vec<i32> {
    with(|l| std::mem::take(&mut l.ring_fd_closed))
}

/// State of descriptor `fd`: `None` if unknown.
pub fn state(fd: i32) -> Option<FdState> {
    with(|l| l.fds.get(&fd).cloned())
}

/// All issued descriptors that were never closed.
pub fn open_fds() -> Vec<(i32, &'static str)> {
    with(|l| {
        let mut v: Vec<_> = l
            .fds
            .iter()
            .filter(|(_, s)| s.closes.is_empty())
            .map(|(fd, s)| (*fd, s.what))
            .collect();
        v.sort();
        v
    })
}

/// Forget everything (closing what is still open).
pub fn reset() {
    let open = open_fds();
    for (fd, _) in open {
        unsafe { raw_close(fd) };
    }
    with(|l| {
        l.fds.clear();
        l.violations.clear();
        l.ring_fd_closed.clear();
    });
    // Numbers are unique within one history.
    FLOOR.store(1000, Ordering::Relaxed);
}

/// Is `fd` open according to the OS?
pub fn os_open(fd: i32) -> bool {
    unsafe { libc::fcntl(fd, libc::F_GETFD) != -1 }
}

// ---------------------------------------------------------------------------
// inotify interposers: a10 calls `inotify_init1`/`inotify_add_watch` directly;
// the reads go through the (simulated) ring. Real inotify instances are slow to
// close (srcu synchronisation) and unavailable under Miri, so hand out ledger
// descriptors and per-instance watch descriptors 1, 2, 3, ... like the kernel.

static WATCHES: Mutex<Option<HashMap<i32, (i32, HashMap<Vec<u8>, i32>)>>> = Mutex::new(None);

#[unsafe(no_mangle)]
pub extern "C" fn inotify_init1(_flags: libc::c_int) -> libc::c_int {
    let fd = issue("inotify");
    let _g = MonGuard::new();
    WATCHES.lock().unwrap_or_else(|e| e.into_inner()).get_or_insert_with(HashMap::new).insert(fd, (0, HashMap::new()));
    fd
}

#[unsafe(no_mangle)]
pub unsafe extern "C" fn inotify_add_watch(fd: libc::c_int, path: *const libc::c_char, _mask: u32) -> libc::c_int {
    let _g = MonGuard::new();
    let p = unsafe { std::ffi::CStr::from_ptr(path) }.to_bytes().to_vec();
    let mut w = WATCHES.lock().unwrap_or_else(|e| e.into_inner());
    let Some(inst) = w.get_or_insert_with(HashMap::new).get_mut(&fd) else {
        unsafe { *libc::__errno_location() = libc::EBADF };
        return -1;
    };
    // The same path gives the same watch descriptor.
    if let Some(wd) = inst.1.get(&p) {
        return *wd;
    }
    inst.0 += 1;
    let wd = inst.0;
    inst.1.insert(p, wd);
    wd
}
