pub mod alloc;
pub mod fds;
pub mod logsink;
pub mod stack;
pub mod waker;
