//! Bounds of the current thread's stack (native only).

use std::cell::Cell;

thread_local! {
    static BOUNDS: Cell<Option<(usize, usize)>> = const { Cell::new(None) };
}

pub fn current_thread_stack() -> Option<(usize, usize)> {
    #[cfg(miri)]
    {
        None
    }
    #[cfg(not(miri))]
    {
        if let Some(b) = BOUNDS.with(|b| b.get()) {
            return Some(b);
        }
        unsafe {
            let mut attr: libc::pthread_attr_t = std::mem::zeroed();
            if libc::pthread_getattr_np(libc::pthread_self(), &mut attr) != 0 {
                return None;
            }
            let mut addr: *mut libc::c_void = std::ptr::null_mut();
            let mut size: libc::size_t = 0;
            let r = libc::pthread_attr_getstack(&attr, &mut addr, &mut size);
            libc::pthread_attr_destroy(&mut attr);
            if r != 0 {
                return None;
            }
            let b = (addr as usize, addr as usize + size);
            BOUNDS.with(|c| c.set(Some(b)));
            Some(b)
        }
    }
}
