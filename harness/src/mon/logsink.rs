//! `log` sink: a10 reports some anomalies only through `log::warn!`; collect
//! them so oracles can require their absence.

use std::sync::Mutex;

use crate::mon::alloc::MonGuard;

struct Sink;

static MESSAGES: Mutex<Vec<String>> = Mutex::new(Vec::new());

impl log::Log for Sink {
    fn enabled(&self, metadata: &log::Metadata<'_>) -> bool {
        metadata.level() <= log::Level::Warn
    }

    fn log(&self, record: &log::Record<'_>) {
        if record.level() <= log::Level::Warn {
            let _g = MonGuard::new();
            let msg = format!("{}: {}", record.target(), record.args());
            MESSAGES.lock().unwrap_or_else(|e| e.into_inner()).push(msg);
        }
    }

    fn flush(&self) {}
}

pub fn install() {
    let _ = log::set_logger(&Sink);
    log::set_max_level(log::LevelFilter::Warn);
}

pub fn take() -> Vec<String> {
    let _g = MonGuard::new();
    std::mem::take(&mut *MESSAGES.lock().unwrap_or_else(|e| e.into_inner()))
}
