//! `log` sink: a10 reports some anomalies only through `log::warn!`; collect
//! them so oracles can require their absence.

use std::sync::Mutex;

use crate::mon::alloc::MonGuard;

struct Sink;

static MESSAGES: Mutex<Vec<String>> = Mutex::new(Vec::new());

impl log::Log for Sink {
    fn enabled(&self, metadata: &log::Metadata<'_>) -> bool {
        metadata.level() <= log::max_level()
    }

    fn log(&self, record: &log::Record<'_>) {
        if record.level() <= log::max_level() {
            let _g = MonGuard::new();
            let mut msg = format!("{}: {}", record.target(), record.args());
            if log::max_level() == log::LevelFilter::Trace {
                struct V<'a>(&'a mut String);
                impl<'kvs> log::kv::VisitSource<'kvs> for V<'_> {
                    fn visit_pair(&mut self, key: log::kv::Key<'kvs>, value: log::kv::Value<'kvs>) -> Result<(), log::kv::Error> {
                        self.0.push_str(&format!(" {key}={value:?}"));
                        Ok(())
                    }
                }
                let _ = record.key_values().visit(&mut V(&mut msg));
            }
            MESSAGES.lock().unwrap_or_else(|e| e.into_inner()).push(msg);
        }
    }

    fn flush(&self) {}
}

pub fn install() {
    let _ = log::set_logger(&Sink);
    // Debugging aid: VERIF_LOG=trace collects everything a10 logs.
    let all = std::env::var("VERIF_LOG").is_ok_and(|v| v == "trace");
    log::set_max_level(if all { log::LevelFilter::Trace } else { log::LevelFilter::Warn });
}

pub fn take() -> Vec<String> {
    let _g = MonGuard::new();
    std::mem::take(&mut *MESSAGES.lock().unwrap_or_else(|e| e.into_inner()))
}
