//! Counting wakers: every `Context` handed to a10 carries a waker with a unique
//! id whose wake/clone/drop events are counted.

use std::sync::Arc;
use std::sync::atomic::{AtomicI64, AtomicU64, Ordering};
use std::task::{RawWaker, RawWakerVTable, Waker};

#[derive(Debug)]
pub struct WakerState {
    pub id: u64,
    pub wakes: AtomicU64,
    /// Number of live `Waker` handles (excluding the harness' own).
    pub live: AtomicI64,
    pub clones: AtomicU64,
}

static NEXT_ID: AtomicU64 = AtomicU64::new(1);
pub static TOTAL_WAKES: AtomicU64 = AtomicU64::new(0);

/// Called from every wake: the kernel keeps running while a10 is inside
/// `Ring::poll` (a waker that makes a system call, a kernel thread, another CPU).
static ON_WAKE: std::sync::atomic::AtomicPtr<()> = std::sync::atomic::AtomicPtr::new(std::ptr::null_mut());

pub fn set_on_wake(f: Option<fn()>) {
    ON_WAKE.store(f.map(|f| f as *mut ()).unwrap_or(std::ptr::null_mut()), Ordering::SeqCst);
}

fn on_wake() {
    let p = ON_WAKE.load(Ordering::SeqCst);
    if !p.is_null() {
        let f: fn() = unsafe { std::mem::transmute(p) };
        f();
    }
}

pub fn new_waker() -> (Waker, Arc<WakerState>) {
    let state = Arc::new(WakerState {
        id: NEXT_ID.fetch_add(1, Ordering::Relaxed),
        wakes: AtomicU64::new(0),
        live: AtomicI64::new(0),
        clones: AtomicU64::new(0),
    });
    let raw = RawWaker::new(Arc::into_raw(state.clone()).cast(), &VTABLE);
    (unsafe { Waker::from_raw(raw) }, state)
}

impl WakerState {
    pub fn wakes(&self) -> u64 {
        self.wakes.load(Ordering::SeqCst)
    }
}

static VTABLE: RawWakerVTable = RawWakerVTable::new(clone, wake, wake_by_ref, drop_waker);

unsafe fn clone(p: *const ()) -> RawWaker {
    let arc = unsafe { Arc::<WakerState>::from_raw(p.cast()) };
    arc.clones.fetch_add(1, Ordering::Relaxed);
    arc.live.fetch_add(1, Ordering::Relaxed);
    let c = arc.clone();
    std::mem::forget(arc);
    RawWaker::new(Arc::into_raw(c).cast(), &VTABLE)
}

unsafe fn wake(p: *const ()) {
    let arc = unsafe { Arc::<WakerState>::from_raw(p.cast()) };
    arc.wakes.fetch_add(1, Ordering::SeqCst);
    arc.live.fetch_sub(1, Ordering::Relaxed);
    TOTAL_WAKES.fetch_add(1, Ordering::Relaxed);
    drop(arc);
    on_wake();
}

unsafe fn wake_by_ref(p: *const ()) {
    let arc = unsafe { Arc::<WakerState>::from_raw(p.cast()) };
    arc.wakes.fetch_add(1, Ordering::SeqCst);
    TOTAL_WAKES.fetch_add(1, Ordering::Relaxed);
    std::mem::forget(arc);
    on_wake();
}

unsafe fn drop_waker(p: *const ()) {
    let arc = unsafe { Arc::<WakerState>::from_raw(p.cast()) };
    arc.live.fetch_sub(1, Ordering::Relaxed);
}
