//! Allocator monitor: `#[global_allocator]` wrapper over `System`.
//!
//! * exposes the provenance of every block (lets the simulated kernel
//!   dereference the integer addresses a10 puts in submissions under Miri);
//! * kernel-held regions: a `dealloc` of a block overlapping a region the
//!   simulated kernel still holds is recorded as a violation (C01);
//! * tracking mode (native builds only): every block allocated while tracking is
//!   on gets a sequence number and a class (allocated inside an a10 call or by
//!   the harness), freed blocks are poisoned and quarantined until the end of the
//!   window, which gives exact double-free and write-after-free detection and a
//!   leak list at the end of a history.
//!
//! Nothing in here allocates through the global allocator.

use std::alloc::{GlobalAlloc, Layout, System};
use std::cell::Cell;
use std::sync::atomic::{AtomicBool, AtomicU64, AtomicUsize, Ordering};

pub struct MonAlloc;

#[global_allocator]
static GLOBAL: MonAlloc = MonAlloc;

thread_local! {
    /// Set while harness/monitor code runs that must not be attributed to a10.
    static IN_MON: Cell<u32> = const { Cell::new(0) };
    /// Set while a public a10 call is executing on this thread.
    static IN_A10: Cell<u32> = const { Cell::new(0) };
}

thread_local! {
    /// Set while Ring::poll / Ring::drop (the completion consumer) runs.
    static IN_CONSUMER: Cell<u32> = const { Cell::new(0) };
}

/// Run `f` as the completion consumer (Ring::poll, Ring's drop).
pub fn consumer<R>(f: impl FnOnce() -> R) -> R {
    IN_CONSUMER.with(|c| c.set(c.get() + 1));
    let _a = A10Guard::new();
    let r = f();
    IN_CONSUMER.with(|c| c.set(c.get() - 1));
    r
}

pub struct MonGuard;
impl MonGuard {
    pub fn new() -> MonGuard {
        IN_MON.with(|c| c.set(c.get() + 1));
        MonGuard
    }
}
impl Drop for MonGuard {
    fn drop(&mut self) {
        IN_MON.with(|c| c.set(c.get() - 1));
    }
}

pub struct A10Guard;
impl A10Guard {
    pub fn new() -> A10Guard {
        IN_A10.with(|c| c.set(c.get() + 1));
        A10Guard
    }
}
impl Drop for A10Guard {
    fn drop(&mut self) {
        IN_A10.with(|c| c.set(c.get() - 1));
    }
}

/// Run `f` as a call into a10 (allocations are attributed to a10).
pub fn a10<R>(f: impl FnOnce() -> R) -> R {
    let _g = A10Guard::new();
    f()
}

/// Run `f` as monitor/harness internal code.
pub fn internal<R>(f: impl FnOnce() -> R) -> R {
    let _g = MonGuard::new();
    f()
}

fn in_mon() -> bool {
    IN_MON.try_with(|c| c.get() > 0).unwrap_or(true)
}
fn in_a10() -> bool {
    IN_A10.try_with(|c| c.get() > 0).unwrap_or(false)
}

// ---------------------------------------------------------------------------
// Spin lock protecting all tables below.

static LOCK: AtomicBool = AtomicBool::new(false);

struct Locked;
fn lock() -> Locked {
    while LOCK
        .compare_exchange_weak(false, true, Ordering::Acquire, Ordering::Relaxed)
        .is_err()
    {
        std::hint::spin_loop();
    }
    Locked
}
impl Drop for Locked {
    fn drop(&mut self) {
        LOCK.store(false, Ordering::Release);
    }
}

// ---------------------------------------------------------------------------
// Kernel-held regions.

#[derive(Copy, Clone)]
pub struct Held {
    pub start: usize,
    pub end: usize,
    pub req: u64,
    pub what: u8,
    pub freed: bool,
    /// The kernel is done; only a10's completion handling (Ring::poll) may
    /// still dereference (and free) it.
    pub consumer_phase: bool,
}

const MAX_HELD: usize = 4096;
static mut HELD: [Held; MAX_HELD] = [Held {
    start: 0,
    end: 0,
    req: 0,
    what: 0,
    freed: false,
    consumer_phase: false,
}; MAX_HELD];
static HELD_LEN: AtomicUsize = AtomicUsize::new(0);

/// Kinds of held regions (`Held::what`).
pub mod what {
    pub const DATA: u8 = 1;
    pub const IOVEC: u8 = 2;
    pub const MSGHDR: u8 = 3;
    pub const ADDR: u8 = 4;
    pub const OUT: u8 = 5;
    pub const PATH: u8 = 6;
    pub const STATE: u8 = 7;
    pub const POOLBUF: u8 = 8;
    pub const BUFRING: u8 = 9;
    pub fn name(w: u8) -> &'static str {
        match w {
            DATA => "data-buffer",
            IOVEC => "iovec-array",
            MSGHDR => "msghdr",
            ADDR => "address",
            OUT => "out-param",
            PATH => "path",
            STATE => "op-state",
            POOLBUF => "pool-buffer",
            BUFRING => "buffer-ring",
            _ => "?",
        }
    }
}

/// Register `[start, start+len)` as held by kernel request `req`.
pub fn hold(start: usize, len: usize, req: u64, what: u8) {
    if len == 0 || start == 0 {
        return;
    }
    let _l = lock();
    let n = HELD_LEN.load(Ordering::Relaxed);
    if n >= MAX_HELD {
        return;
    }
    unsafe {
        (*(&raw mut HELD))[n] = Held {
            start,
            end: start + len,
            req,
            what,
            freed: false,
            consumer_phase: false,
        };
    }
    HELD_LEN.store(n + 1, Ordering::Relaxed);
}

/// Release all regions held by `req`.
pub fn release(req: u64) {
    let _l = lock();
    let held = unsafe { &mut *(&raw mut HELD) };
    let mut n = HELD_LEN.load(Ordering::Relaxed);
    let mut i = 0;
    while i < n {
        if held[i].req == req {
            held[i] = held[n - 1];
            n -= 1;
        } else {
            i += 1;
        }
    }
    HELD_LEN.store(n, Ordering::Relaxed);
}

/// With several threads an operation's owner may free its state as soon as it
/// resolved, which can be before Ring::poll published the new head; the
/// consumer-phase hold is only sound in single-threaded histories.
pub static CONSUMER_PHASE_HOLDS: AtomicBool = AtomicBool::new(true);

/// Release the regions of `req` except those of kind `keep`.
pub fn release_except(req: u64, keep: u8) {
    if !CONSUMER_PHASE_HOLDS.load(Ordering::Relaxed) {
        return release(req);
    }
    let _l = lock();
    let held = unsafe { &mut *(&raw mut HELD) };
    let mut n = HELD_LEN.load(Ordering::Relaxed);
    let mut i = 0;
    while i < n {
        if held[i].req == req && held[i].what != keep {
            held[i] = held[n - 1];
            n -= 1;
        } else {
            if held[i].req == req {
                held[i].consumer_phase = true;
            }
            i += 1;
        }
    }
    HELD_LEN.store(n, Ordering::Relaxed);
}

pub fn release_all() {
    let _l = lock();
    HELD_LEN.store(0, Ordering::Relaxed);
}

/// True if the region of kind `what` of `req` was freed while held.
pub fn was_freed_what(req: u64, what: u8) -> bool {
    let _l = lock();
    let held = unsafe { &*(&raw const HELD) };
    let n = HELD_LEN.load(Ordering::Relaxed);
    held[..n].iter().any(|h| h.req == req && h.freed && h.what == what)
}

pub fn pending_violations() -> usize {
    VIOL_LEN.load(Ordering::Relaxed)
}

/// True if a region of `req` was freed while held.
pub fn was_freed(req: u64) -> bool {
    let _l = lock();
    let held = unsafe { &*(&raw const HELD) };
    let n = HELD_LEN.load(Ordering::Relaxed);
    held[..n].iter().any(|h| h.req == req && h.freed)
}

// ---------------------------------------------------------------------------
// Violation records (fixed storage, no allocation).

#[derive(Copy, Clone, Debug)]
pub struct Viol {
    pub kind: u8,
    pub req: u64,
    pub what: u8,
    pub addr: usize,
    pub size: usize,
    pub seq: u64,
}

pub const V_FREE_WHILE_HELD: u8 = 1;
pub const V_DOUBLE_FREE: u8 = 2;
pub const V_WRITE_AFTER_FREE: u8 = 3;

const MAX_VIOL: usize = 64;
static mut VIOLS: [Viol; MAX_VIOL] = [Viol {
    kind: 0,
    req: 0,
    what: 0,
    addr: 0,
    size: 0,
    seq: 0,
}; MAX_VIOL];
static VIOL_LEN: AtomicUsize = AtomicUsize::new(0);

fn push_viol(v: Viol) {
    // NOTE: caller holds the lock.
    let n = VIOL_LEN.load(Ordering::Relaxed);
    if n < MAX_VIOL {
        unsafe { (*(&raw mut VIOLS))[n] = v };
        VIOL_LEN.store(n + 1, Ordering::Relaxed);
    }
}

/// Take all recorded violations.
pub fn take_violations() -> Vec<Viol> {
    let _g = MonGuard::new();
    let mut out = Vec::with_capacity(MAX_VIOL);
    let _l = lock();
    let n = VIOL_LEN.load(Ordering::Relaxed);
    for i in 0..n {
        out.push(unsafe { (*(&raw const VIOLS))[i] });
    }
    VIOL_LEN.store(0, Ordering::Relaxed);
    out
}

// ---------------------------------------------------------------------------
// Block table (tracking mode).

#[derive(Copy, Clone)]
struct Entry {
    addr: usize,
    size: usize,
    align: u32,
    /// 0 empty, 1 live, 2 freed (quarantined), 3 tombstone.
    state: u8,
    /// true: allocated inside an a10 call.
    a10: bool,
    seq: u64,
}

const CAP: usize = 1 << 14;
static mut TABLE: *mut Entry = std::ptr::null_mut();
static TABLE_USED: AtomicUsize = AtomicUsize::new(0); // live + freed + tombstones
static TABLE_ACTIVE: AtomicUsize = AtomicUsize::new(0); // live + freed
static TRACKING: AtomicBool = AtomicBool::new(false);
static SEQ: AtomicU64 = AtomicU64::new(1);
pub static STAT_ALLOCS: AtomicU64 = AtomicU64::new(0);
pub static STAT_FREES: AtomicU64 = AtomicU64::new(0);
pub static STAT_HELD_CHECKS: AtomicU64 = AtomicU64::new(0);

const POISON: u8 = 0xDD;

fn table() -> &'static mut [Entry] {
    unsafe {
        if (*(&raw const TABLE)).is_null() {
            let layout = Layout::array::<Entry>(CAP).unwrap();
            let p = System.alloc_zeroed(layout).cast::<Entry>();
            assert!(!p.is_null());
            *(&raw mut TABLE) = p;
        }
        std::slice::from_raw_parts_mut(*(&raw const TABLE), CAP)
    }
}

fn slot_of(addr: usize) -> usize {
    let mut x = (addr >> 4) as u64;
    x = x.wrapping_mul(0x9E37_79B9_7F4A_7C15);
    (x >> 44) as usize & (CAP - 1)
}

fn find(t: &[Entry], addr: usize) -> Option<usize> {
    let mut i = slot_of(addr);
    for _ in 0..CAP {
        match t[i].state {
            0 => return None,
            1 | 2 if t[i].addr == addr => return Some(i),
            _ => {}
        }
        i = (i + 1) & (CAP - 1);
    }
    None
}

fn insert(t: &mut [Entry], e: Entry) -> bool {
    if TABLE_USED.load(Ordering::Relaxed) > CAP / 2 {
        return false;
    }
    let mut i = slot_of(e.addr);
    loop {
        match t[i].state {
            0 => {
                TABLE_USED.fetch_add(1, Ordering::Relaxed);
                break;
            }
            3 => break,
            _ => i = (i + 1) & (CAP - 1),
        }
    }
    t[i] = e;
    TABLE_ACTIVE.fetch_add(1, Ordering::Relaxed);
    true
}

/// True when built for a sanitizer / Miri: pass-through only.
pub const PASS_THROUGH_ONLY: bool = cfg!(miri) || cfg!(feature = "sanitizer");

/// Start a tracking window.
pub fn start_tracking() {
    if PASS_THROUGH_ONLY {
        return;
    }
    let _l = lock();
    let _ = table();
    TRACKING.store(true, Ordering::Release);
}

#[derive(Debug, Clone)]
pub struct Leak {
    pub addr: usize,
    pub size: usize,
    pub seq: u64,
}

/// End the tracking window: checks the poison of quarantined blocks, releases
/// them, and returns the blocks allocated inside a10 calls that are still live.
/// Live blocks are forgotten afterwards.
pub fn end_tracking() -> Vec<Leak> {
    let _g = MonGuard::new();
    let mut leaks = Vec::new();
    if PASS_THROUGH_ONLY {
        return leaks;
    }
    let mut to_free: Vec<(usize, usize, u32)> = Vec::new();
    // No allocation may happen while the table lock is held.
    let n = TABLE_ACTIVE.load(Ordering::Relaxed) + 64;
    to_free.reserve(n);
    leaks.reserve(n);
    {
        let _l = lock();
        TRACKING.store(false, Ordering::Release);
        let t = table();
        if TABLE_USED.load(Ordering::Relaxed) > 0 {
            for e in t.iter_mut() {
                match e.state {
                    1 => {
                        if e.a10 && leaks.len() < leaks.capacity() {
                            leaks.push(Leak {
                                addr: e.addr,
                                size: e.size,
                                seq: e.seq,
                            });
                        }
                    }
                    2 => {
                        let bytes =
                            unsafe { std::slice::from_raw_parts(e.addr as *const u8, e.size) };
                        if let Some(off) = bytes.iter().position(|b| *b != POISON) {
                            push_viol(Viol {
                                kind: V_WRITE_AFTER_FREE,
                                req: 0,
                                what: 0,
                                addr: e.addr + off,
                                size: e.size,
                                seq: e.seq,
                            });
                        }
                        if to_free.len() < to_free.capacity() {
                            to_free.push((e.addr, e.size, e.align));
                        }
                    }
                    _ => {}
                }
                e.state = 0;
            }
        }
        TABLE_USED.store(0, Ordering::Relaxed);
        TABLE_ACTIVE.store(0, Ordering::Relaxed);
    }
    for (addr, size, align) in to_free {
        unsafe {
            System.dealloc(
                addr as *mut u8,
                Layout::from_size_align_unchecked(size, align as usize),
            );
        }
    }
    leaks.sort_by_key(|l| l.seq);
    leaks
}

/// After a panic: stop tracking and forget everything (blocks are leaked).
pub fn force_stop_tracking() {
    if PASS_THROUGH_ONLY {
        return;
    }
    let _l = lock();
    TRACKING.store(false, Ordering::Release);
    if TABLE_USED.load(Ordering::Relaxed) > 0 {
        for e in table().iter_mut() {
            e.state = 0;
        }
    }
    TABLE_USED.store(0, Ordering::Relaxed);
    TABLE_ACTIVE.store(0, Ordering::Relaxed);
    HELD_LEN.store(0, Ordering::Relaxed);
    VIOL_LEN.store(0, Ordering::Relaxed);
    IN_MON.with(|c| c.set(0));
    IN_A10.with(|c| c.set(0));
    IN_CONSUMER.with(|c| c.set(0));
}

/// Number of live tracked blocks that were allocated inside a10 calls.
pub fn live_a10_blocks() -> usize {
    if PASS_THROUGH_ONLY {
        return 0;
    }
    let _l = lock();
    if TABLE_USED.load(Ordering::Relaxed) == 0 {
        return 0;
    }
    table().iter().filter(|e| e.state == 1 && e.a10).count()
}

/// Snapshot of the sequence counter, blocks allocated later have a larger seq.
pub fn seq_now() -> u64 {
    SEQ.load(Ordering::Relaxed)
}

/// Live a10-class blocks with `seq >= since`.
pub fn live_a10_since(since: u64) -> Vec<Leak> {
    let _g = MonGuard::new();
    let mut out = Vec::new();
    if PASS_THROUGH_ONLY {
        return out;
    }
    out.reserve(TABLE_ACTIVE.load(Ordering::Relaxed) + 64);
    let _l = lock();
    if TABLE_USED.load(Ordering::Relaxed) == 0 {
        return out;
    }
    for e in table().iter() {
        if e.state == 1 && e.a10 && e.seq >= since && out.len() < out.capacity() {
            out.push(Leak {
                addr: e.addr,
                size: e.size,
                seq: e.seq,
            });
        }
    }
    out.sort_by_key(|l| l.seq);
    out
}

/// Returns `(block start, block size, live)` of the tracked block containing
/// `addr`, if any.
pub fn block_of(addr: usize) -> Option<(usize, usize, bool)> {
    if PASS_THROUGH_ONLY {
        return None;
    }
    let _l = lock();
    if TABLE_ACTIVE.load(Ordering::Relaxed) == 0 {
        return None;
    }
    for e in table().iter() {
        if (e.state == 1 || e.state == 2) && addr >= e.addr && addr < e.addr + e.size.max(1) {
            return Some((e.addr, e.size, e.state == 1));
        }
    }
    None
}

fn check_held(ptr: usize, size: usize) {
    if HELD_LEN.load(Ordering::Relaxed) == 0 {
        return;
    }
    STAT_HELD_CHECKS.fetch_add(1, Ordering::Relaxed);
    let _l = lock();
    let held = unsafe { &mut *(&raw mut HELD) };
    let n = HELD_LEN.load(Ordering::Relaxed);
    let end = ptr + size.max(1);
    let consumer = IN_CONSUMER.try_with(|c| c.get() > 0).unwrap_or(false);
    for h in held[..n].iter_mut() {
        if h.start < end && ptr < h.end && !h.freed {
            if h.consumer_phase && consumer {
                // Ring::poll reclaiming the state of a dropped operation.
                h.freed = true;
                continue;
            }
            h.freed = true;
            push_viol(Viol {
                kind: V_FREE_WHILE_HELD,
                req: h.req,
                what: h.what,
                addr: h.start,
                size: h.end - h.start,
                seq: 0,
            });
        }
    }
}

unsafe impl GlobalAlloc for MonAlloc {
    unsafe fn alloc(&self, layout: Layout) -> *mut u8 {
        let p = unsafe { System.alloc(layout) };
        if p.is_null() {
            return p;
        }
        let _ = p.expose_provenance();
        if TRACKING.load(Ordering::Acquire) && !in_mon() {
            STAT_ALLOCS.fetch_add(1, Ordering::Relaxed);
            let a10 = in_a10();
            let _l = lock();
            let seq = SEQ.fetch_add(1, Ordering::Relaxed);
            insert(
                table(),
                Entry {
                    addr: p.addr(),
                    size: layout.size(),
                    align: layout.align() as u32,
                    state: 1,
                    a10,
                    seq,
                },
            );
        }
        p
    }

    unsafe fn alloc_zeroed(&self, layout: Layout) -> *mut u8 {
        let p = unsafe { self.alloc(layout) };
        if !p.is_null() {
            unsafe { p.write_bytes(0, layout.size()) };
        }
        p
    }

    unsafe fn dealloc(&self, ptr: *mut u8, layout: Layout) {
        check_held(ptr.addr(), layout.size());
        if TABLE_ACTIVE.load(Ordering::Relaxed) > 0 {
            let l = lock();
            let t = table();
            if let Some(i) = find(t, ptr.addr()) {
                if t[i].state == 2 {
                    push_viol(Viol {
                        kind: V_DOUBLE_FREE,
                        req: 0,
                        what: 0,
                        addr: ptr.addr(),
                        size: layout.size(),
                        seq: t[i].seq,
                    });
                    return; // Not forwarded.
                }
                STAT_FREES.fetch_add(1, Ordering::Relaxed);
                if TRACKING.load(Ordering::Relaxed) {
                    // Quarantine.
                    t[i].state = 2;
                    drop(l);
                    unsafe { ptr.write_bytes(POISON, layout.size()) };
                    return;
                }
                t[i].state = 3;
                TABLE_ACTIVE.fetch_sub(1, Ordering::Relaxed);
            }
        }
        unsafe { System.dealloc(ptr, layout) }
    }

    unsafe fn realloc(&self, ptr: *mut u8, layout: Layout, new_size: usize) -> *mut u8 {
        // Always move so that addresses identify blocks and a reallocation of a
        // kernel-held block is seen as a free.
        let new_layout = unsafe { Layout::from_size_align_unchecked(new_size, layout.align()) };
        let new = unsafe { self.alloc(new_layout) };
        if !new.is_null() {
            unsafe {
                std::ptr::copy_nonoverlapping(ptr, new, layout.size().min(new_size));
                self.dealloc(ptr, layout);
            }
        }
        new
    }
}
