//! C04 (and C03) on the REAL kernel: several free-running threads submit
//! uniquely tagged writes through one small submission queue while the ring
//! thread polls; a reader on the other end of the pipe sees what the kernel
//! really executed.
//!
//! Every accepted submission must reach the kernel exactly once and unmodified:
//! each 16-byte token (thread, sequence number, check word) must arrive exactly
//! once. A token that arrived although its operation never resolves is a lost
//! completion/wake-up. Timing is the machine's; a run that does not finish in
//! time without such evidence is inconclusive (counter), not a finding.

use std::collections::HashMap;
use std::io::Read as _;
use std::os::fd::{FromRawFd, OwnedFd};
use std::sync::atomic::{AtomicBool, AtomicU64, AtomicUsize, Ordering};
use std::sync::{Arc, Mutex};
use std::task::{Context, Poll};
use std::time::{Duration, Instant};

use a10::{AsyncFd, Ring};

use crate::mon::alloc::MonGuard;
use crate::mon::waker::new_waker;
use crate::out::{Report, ViolationOut};
use crate::rng::{Rng, fnv};

const TOKEN: usize = 16;

fn token(thread: u32, seq: u32) -> [u8; TOKEN] {
    let mut t = [0u8; TOKEN];
    t[0..4].copy_from_slice(&0xA10C_0DE5u32.to_le_bytes());
    t[4..8].copy_from_slice(&thread.to_le_bytes());
    t[8..12].copy_from_slice(&seq.to_le_bytes());
    t[12..16].copy_from_slice(&(thread.wrapping_mul(0x9E37_79B1) ^ seq.wrapping_mul(0x85EB_CA6B) ^ 0x5bd1_e995).to_le_bytes());
    t
}

fn parse(t: &[u8]) -> Option<(u32, u32)> {
    let rd = |o: usize| u32::from_le_bytes(t[o..o + 4].try_into().unwrap());
    if rd(0) != 0xA10C_0DE5 {
        return None;
    }
    let (th, seq) = (rd(4), rd(8));
    (rd(12) == th.wrapping_mul(0x9E37_79B1) ^ seq.wrapping_mul(0x85EB_CA6B) ^ 0x5bd1_e995).then_some((th, seq))
}

fn run_case(seed: u64, index: u64, rep: &mut Report) {
    let mut rng = Rng::derive(seed, 0xC04E, index);
    crate::simk::uninstall();
    let sq_size = *rng.pick(&[1u32, 2, 2, 4, 8]);
    let nthreads = 2 + rng.below(3) as u32;
    let per_thread = 20 + rng.below(60) as u32;
    let mut ring = match Ring::config().with_submission_queue_size(sq_size).build() {
        Ok(r) => r,
        Err(e) => {
            rep.count(&format!("real_ring_unavailable:{:?}", e.kind()), 1);
            rep.cell("c04real:skipped");
            return;
        }
    };
    let sq = ring.sq();
    let mut f = [0i32; 2];
    assert_eq!(unsafe { libc::pipe2(f.as_mut_ptr(), libc::O_CLOEXEC) }, 0);
    let (r, w) = unsafe { (OwnedFd::from_raw_fd(f[0]), OwnedFd::from_raw_fd(f[1])) };
    let afd: &'static AsyncFd = Box::leak(Box::new(AsyncFd::new(w, sq.clone())));
    let total = (nthreads * per_thread) as usize;
    let received: Arc<Mutex<Vec<u8>>> = Arc::new(Mutex::new(Vec::with_capacity(total * TOKEN)));
    let stop_reader = Arc::new(AtomicBool::new(false));
    let resolved = Arc::new(AtomicUsize::new(0));
    let done_threads = Arc::new(AtomicUsize::new(0));
    let give_up = Arc::new(AtomicBool::new(false));
    let wrong_results = Arc::new(AtomicU64::new(0));
    // What each thread is currently waiting for (seq + 1, 0 = nothing).
    let waiting: Arc<Vec<AtomicU64>> = Arc::new((0..nthreads).map(|_| AtomicU64::new(0)).collect());

    let reader = {
        let received = received.clone();
        let stop = stop_reader.clone();
        let mut file = std::fs::File::from(r);
        unsafe {
            let fl = libc::fcntl(f[0], libc::F_GETFL);
            libc::fcntl(f[0], libc::F_SETFL, fl | libc::O_NONBLOCK);
        }
        std::thread::spawn(move || {
            let mut buf = [0u8; 4096];
            let mut stopping = false;
            loop {
                match file.read(&mut buf) {
                    Ok(0) => break,
                    Ok(n) => received.lock().unwrap().extend_from_slice(&buf[..n]),
                    Err(_) => {
                        // Empty. Once told to stop, look one more time: everything written before
                        // the flag was set is in the pipe by now, whatever happened to this thread
                        // between its last read and this check.
                        if stopping {
                            break;
                        }
                        if stop.load(Ordering::SeqCst) {
                            stopping = true;
                            continue;
                        }
                        std::thread::sleep(Duration::from_micros(50));
                    }
                }
            }
        })
    };
    let mut workers = Vec::new();
    for t in 0..nthreads {
        let resolved = resolved.clone();
        let done_threads = done_threads.clone();
        let give_up = give_up.clone();
        let wrong = wrong_results.clone();
        let waiting = waiting.clone();
        let spin_seed = rng.next();
        workers.push(std::thread::spawn(move || {
            let mut r = Rng::new(spin_seed);
            let (waker, ws) = {
                let _g = MonGuard::new();
                new_waker()
            };
            let mut cx = Context::from_waker(&waker);
            'ops: for seq in 0..per_thread {
                let mut fut = Box::pin(afd.write(token(t, seq).to_vec()));
                waiting[t as usize].store(u64::from(seq) + 1, Ordering::SeqCst);
                let mut seen = ws.wakes();
                loop {
                    match std::future::Future::poll(fut.as_mut(), &mut cx) {
                        Poll::Ready(res) => {
                            if !matches!(res, Ok(n) if n == TOKEN) {
                                wrong.fetch_add(1, Ordering::SeqCst);
                            }
                            break;
                        }
                        Poll::Pending => {}
                    }
                    // Strict executor: only poll again after the waker fired.
                    while ws.wakes() == seen {
                        if give_up.load(Ordering::SeqCst) {
                            std::mem::forget(fut);
                            break 'ops;
                        }
                        if r.chance(1, 4) {
                            std::thread::yield_now();
                        } else {
                            std::hint::spin_loop();
                        }
                    }
                    seen = ws.wakes();
                }
                waiting[t as usize].store(0, Ordering::SeqCst);
                resolved.fetch_add(1, Ordering::SeqCst);
            }
            done_threads.fetch_add(1, Ordering::SeqCst);
        }));
    }
    // Ring thread.
    let start = Instant::now();
    let mut polls = 0u64;
    // "Stuck" means: no operation resolved during a whole 5 s window of polling. A run that is
    // merely slow (a loaded machine) keeps making progress and is given up to a minute.
    let mut timed_out = false;
    let mut slow_only = false;
    let mut window_start = Instant::now();
    let mut window_resolved = resolved.load(Ordering::SeqCst);
    while done_threads.load(Ordering::SeqCst) < nthreads as usize {
        let _ = ring.poll(Some(Duration::from_micros(200)));
        polls += 1;
        let now_resolved = resolved.load(Ordering::SeqCst);
        if now_resolved != window_resolved {
            window_resolved = now_resolved;
            window_start = Instant::now();
        } else if window_start.elapsed() > Duration::from_secs(5) {
            timed_out = true;
            break;
        }
        if start.elapsed() > Duration::from_secs(60) {
            timed_out = true;
            slow_only = true;
            break;
        }
    }
    if timed_out {
        give_up.store(true, Ordering::SeqCst);
    }
    for w in workers {
        let _ = w.join();
    }
    for _ in 0..3 {
        let _ = ring.poll(Some(Duration::from_micros(200)));
    }
    std::thread::sleep(Duration::from_millis(2));
    stop_reader.store(true, Ordering::SeqCst);
    let _ = reader.join();

    // Judge.
    let bytes = received.lock().unwrap().clone();
    let mut counts: HashMap<(u32, u32), u32> = HashMap::new();
    let mut garbage = 0u64;
    for chunk in bytes.chunks(TOKEN) {
        match (chunk.len() == TOKEN).then(|| parse(chunk)).flatten() {
            Some(k) => *counts.entry(k).or_insert(0) += 1,
            None => garbage += 1,
        }
    }
    let mut found: Vec<(&'static str, String, String)> = Vec::new();
    if garbage > 0 {
        found.push(("C04", "real:submission-modified".into(), format!("{garbage} of {} 16-byte records read from the pipe are not one of the tokens that were written: the kernel saw modified or partially written submissions", bytes.len().div_ceil(TOKEN))));
    }
    let dup: Vec<_> = counts.iter().filter(|(_, n)| **n > 1).map(|(k, n)| (*k, *n)).take(4).collect();
    if !dup.is_empty() {
        found.push(("C04", "real:submission-duplicated".into(), format!("tokens executed more than once by the kernel: {dup:?} (queue of {sq_size}, {nthreads} submitters)")));
    }
    let all_resolved = resolved.load(Ordering::SeqCst) == total;
    if all_resolved {
        let missing: Vec<(u32, u32)> = (0..nthreads).flat_map(|t| (0..per_thread).map(move |s| (t, s))).filter(|k| !counts.contains_key(k)).take(4).collect();
        if !missing.is_empty() {
            found.push(("C04", "real:submission-lost".into(), format!("writes that resolved with Ok but never reached the pipe: {missing:?} (queue of {sq_size}, {nthreads} submitters)")));
        }
    } else if timed_out && slow_only {
        rep.count("c04real_inconclusive_timeouts", 1);
    } else if timed_out {
        // A thread still waits for an operation the kernel has executed: its completion or wake-up was lost.
        let mut stuck_done = Vec::new();
        for t in 0..nthreads {
            let w = waiting[t as usize].load(Ordering::SeqCst);
            if w != 0 && counts.contains_key(&(t, (w - 1) as u32)) {
                stuck_done.push((t, w - 1));
            }
        }
        if !stuck_done.is_empty() {
            found.push(("C03", "real:executed-op-never-resolved".into(), format!("threads still waiting to be woken for writes the kernel has executed (token arrived): {stuck_done:?}; the ring thread kept polling for {polls} polls")));
        } else {
            let stuck: Vec<_> = (0..nthreads).map(|t| waiting[t as usize].load(Ordering::SeqCst)).collect();
            if stuck.iter().any(|w| *w != 0) {
                found.push(("C04", "real:accepted-submission-never-executed".into(), format!("threads wait for writes (seq+1 per thread: {stuck:?}) that never reached the pipe although the ring thread kept entering the kernel")));
            } else {
                rep.count("c04real_inconclusive_timeouts", 1);
            }
        }
    }
    if wrong_results.load(Ordering::SeqCst) > 0 {
        found.push(("C04", "real:wrong-result-for-submission".into(), format!("{} writes of 16 bytes to a pipe resolved with something else than Ok(16)", wrong_results.load(Ordering::SeqCst))));
    }
    drop(sq);
    if !give_up.load(Ordering::SeqCst) {
        unsafe { drop(Box::from_raw(std::ptr::from_ref(afd).cast_mut())) };
        drop(ring);
    } else {
        std::mem::forget(ring);
    }
    rep.count("real_tokens_written", total as u64);
    rep.count("real_tokens_received", counts.len() as u64);
    rep.count("real_ring_polls", polls);
    rep.cell(format!("real-sq={sq_size}"));
    rep.cell(format!("real-submitters={nthreads}"));
    let sig = fnv(index, &[sq_size as u8, nthreads as u8, per_thread as u8]);
    rep.history(sig, true, || format!("c04real sq={sq_size} submitters={nthreads} writes/thread={per_thread} received={} polls={polls}", counts.len()));
    for (prop, s, d) in found {
        rep.violation(ViolationOut { prop: prop.into(), sig: s, detail: d, scenario: "c04real".into(), seed, index, trace: Vec::new() });
    }
}

pub fn run(seed: u64, start: u64, iters: u64, rep: &mut Report) {
    for index in start..start + iters {
        super::guarded(rep, "c04real", "C04", seed, index, |rep| run_case(seed, index, rep));
    }
    crate::simk::install();
}
