//! Conformance of the simulated kernel: the same raw io_uring scripts (no a10
//! involved) run once against the real io_uring of this machine and once
//! against simk; the transcripts must be equal.
//!
//! Only behaviour simk decides on its own is probed (set-up validation, the
//! `io_uring_enter` protocol, overflow, cancel, msg-ring, ring enabling, single
//! issuer, buffer-ring and file-table registration). Results of I/O operations
//! are scripted by the scenarios and not part of this.
//!
//! A mismatch is not a property violation: it is reported under the pseudo
//! property `SIMK` and makes the evidence of every simk based check say so.

use std::ffi::{c_int, c_uint, c_void};
use std::sync::atomic::{AtomicU32, Ordering};

use a10::verif::Kernel;

use crate::out::Report;
use crate::simk::abi::*;
use crate::simk::{self};

unsafe fn r_setup(entries: c_uint, params: *mut c_void) -> c_int {
    unsafe { libc::syscall(libc::SYS_io_uring_setup, entries, params) as c_int }
}
unsafe fn r_register(fd: c_int, opcode: c_uint, arg: *const c_void, nr: c_uint) -> c_int {
    unsafe { libc::syscall(libc::SYS_io_uring_register, fd, opcode, arg, nr) as c_int }
}
unsafe fn r_enter(fd: c_int, to_submit: c_uint, min_complete: c_uint, flags: c_uint, arg: *const c_void, size: usize) -> c_int {
    unsafe { libc::syscall(libc::SYS_io_uring_enter, fd, to_submit, min_complete, flags, arg, size) as c_int }
}
unsafe fn r_mmap(len: usize, prot: c_int, flags: c_int, fd: c_int, off: i64) -> *mut c_void {
    unsafe { libc::mmap(std::ptr::null_mut(), len, prot, flags, fd, off) }
}
unsafe fn r_munmap(addr: *mut c_void, len: usize) -> c_int {
    unsafe { libc::munmap(addr, len) }
}

fn real_table() -> Kernel {
    Kernel { setup: r_setup, register: r_register, enter: r_enter, mmap: r_mmap, munmap: r_munmap }
}

fn errno() -> i32 {
    unsafe { *libc::__errno_location() }
}

fn ename(e: i32) -> String {
    let n = match e {
        libc::EINVAL => "EINVAL",
        libc::EBADF => "EBADF",
        libc::EBADFD => "EBADFD",
        libc::EEXIST => "EEXIST",
        libc::ETIME => "ETIME",
        libc::ENOENT => "ENOENT",
        libc::EBUSY => "EBUSY",
        libc::ENXIO => "ENXIO",
        libc::EOPNOTSUPP => "EOPNOTSUPP",
        libc::ECANCELED => "ECANCELED",
        libc::ENOBUFS => "ENOBUFS",
        libc::EFAULT => "EFAULT",
        libc::EMFILE => "EMFILE",
        libc::ENOMEM => "ENOMEM",
        libc::EALREADY => "EALREADY",
        libc::EOVERFLOW => "EOVERFLOW",
        libc::EPERM => "EPERM",
        libc::ENOSYS => "ENOSYS",
        libc::EINTR => "EINTR",
        libc::EAGAIN => "EAGAIN",
        _ => return format!("errno{e}"),
    };
    n.to_string()
}

fn rs(ret: i32) -> String {
    if ret < 0 { format!("-{}", ename(-ret)) } else { ret.to_string() }
}

pub struct Params {
    pub entries: u32,
    pub flags: u32,
    pub cq_entries: u32,
    pub cpu: u32,
    pub wq_fd: u32,
    pub resv: u32,
}

impl Params {
    fn new(entries: u32, flags: u32) -> Params {
        Params { entries, flags, cq_entries: 0, cpu: 0, wq_fd: 0, resv: 0 }
    }
}

pub struct RawRing {
    kt: Kernel,
    pub fd: i32,
    pub flags: u32,
    pub sq_entries: u32,
    pub cq_entries: u32,
    pub features: u32,
    sq: (*mut u8, usize),
    cq: (*mut u8, usize),
    sqes: (*mut u8, usize),
    sq_off: [u32; 7],
    cq_off: [u32; 7],
    tail: u32,
}

unsafe impl Send for RawRing {}

impl RawRing {
    pub fn new(kt: Kernel, p: &Params) -> Result<RawRing, i32> {
        let mut params = [0u8; P_SIZE];
        let wr = |b: &mut [u8; P_SIZE], o: usize, v: u32| b[o..o + 4].copy_from_slice(&v.to_le_bytes());
        wr(&mut params, P_FLAGS, p.flags);
        wr(&mut params, P_CQ_ENTRIES, p.cq_entries);
        wr(&mut params, P_SQ_THREAD_CPU, p.cpu);
        wr(&mut params, P_WQ_FD, p.wq_fd);
        wr(&mut params, P_RESV, p.resv);
        let fd = unsafe { (kt.setup)(p.entries, params.as_mut_ptr().cast()) };
        if fd < 0 {
            return Err(errno());
        }
        let rd = |o: usize| u32::from_le_bytes(params[o..o + 4].try_into().unwrap());
        let mut sq_off = [0u32; 7];
        let mut cq_off = [0u32; 7];
        for i in 0..7 {
            sq_off[i] = rd(P_SQ_OFF + 4 * i);
            cq_off[i] = rd(P_CQ_OFF + 4 * i);
        }
        let sq_entries = rd(P_SQ_ENTRIES);
        let cq_entries = rd(P_CQ_ENTRIES);
        // Same lengths as a10 uses.
        let sq_len = (sq_off[6] + sq_entries * 4) as usize;
        let cq_len = cq_off[5] as usize + cq_entries as usize * CQE_SIZE;
        let sqes_len = sq_entries as usize * SQE_SIZE;
        let map = |len: usize, off: i64| -> Result<*mut u8, i32> {
            let a = unsafe { (kt.mmap)(len, libc::PROT_READ | libc::PROT_WRITE, libc::MAP_SHARED | libc::MAP_POPULATE, fd, off) };
            if a == libc::MAP_FAILED { Err(errno()) } else { Ok(a.cast()) }
        };
        let sq = map(sq_len, OFF_SQ_RING);
        let sqes = map(sqes_len, OFF_SQES);
        let cq = map(cq_len, OFF_CQ_RING);
        match (sq, sqes, cq) {
            (Ok(sq), Ok(sqes), Ok(cq)) => {
                let mut r = RawRing {
                    kt,
                    fd,
                    flags: p.flags,
                    sq_entries,
                    cq_entries,
                    features: rd(P_FEATURES),
                    sq: (sq, sq_len),
                    cq: (cq, cq_len),
                    sqes: (sqes, sqes_len),
                    sq_off,
                    cq_off,
                    tail: 0,
                };
                r.tail = r.sq_u32(1).load(Ordering::Acquire);
                Ok(r)
            }
            (a, b, c) => {
                let e = a.err().or(b.err()).or(c.err()).unwrap();
                unsafe { libc::close(fd) };
                Err(e)
            }
        }
    }

    fn sq_u32(&self, i: usize) -> &AtomicU32 {
        unsafe { &*self.sq.0.add(self.sq_off[i] as usize).cast::<AtomicU32>() }
    }
    fn cq_u32(&self, i: usize) -> &AtomicU32 {
        unsafe { &*self.cq.0.add(self.cq_off[i] as usize).cast::<AtomicU32>() }
    }
    pub fn sq_flags(&self) -> u32 {
        self.sq_u32(4).load(Ordering::Acquire)
    }
    pub fn sq_head(&self) -> u32 {
        self.sq_u32(0).load(Ordering::Acquire)
    }
    pub fn cq_overflow(&self) -> u32 {
        self.cq_u32(4).load(Ordering::Acquire)
    }
    pub fn cq_ready(&self) -> u32 {
        self.cq_u32(1).load(Ordering::Acquire).wrapping_sub(self.cq_u32(0).load(Ordering::Acquire))
    }

    pub fn push(&mut self, sqe: [u8; SQE_SIZE]) {
        let mask = self.sq_entries - 1;
        let idx = self.tail & mask;
        unsafe {
            std::ptr::copy_nonoverlapping(sqe.as_ptr(), self.sqes.0.add(idx as usize * SQE_SIZE), SQE_SIZE);
            if self.flags & SETUP_NO_SQARRAY == 0 {
                self.sq.0.add(self.sq_off[6] as usize + 4 * idx as usize).cast::<u32>().write(idx);
            }
        }
        self.tail = self.tail.wrapping_add(1);
        self.sq_u32(1).store(self.tail, Ordering::Release);
    }

    /// Returns the result, negative errno on failure.
    pub fn enter(&self, to_submit: u32, min_complete: u32, flags: u32, timeout_ns: Option<u64>) -> i32 {
        self.enter_raw(self.fd, to_submit, min_complete, flags, timeout_ns, GETEVENTS_ARG_SIZE)
    }

    pub fn enter_raw(&self, fd: i32, to_submit: u32, min_complete: u32, flags: u32, timeout_ns: Option<u64>, argsz: usize) -> i32 {
        let ts = [timeout_ns.unwrap_or(0) as i64 / 1_000_000_000, timeout_ns.unwrap_or(0) as i64 % 1_000_000_000];
        let mut arg = [0u8; GETEVENTS_ARG_SIZE];
        if timeout_ns.is_some() {
            arg[GETEVENTS_ARG_TS..GETEVENTS_ARG_TS + 8].copy_from_slice(&(ts.as_ptr() as u64).to_le_bytes());
        }
        let r = if flags & ENTER_EXT_ARG != 0 {
            unsafe { (self.kt.enter)(fd, to_submit, min_complete, flags, arg.as_ptr().cast(), argsz) }
        } else {
            unsafe { (self.kt.enter)(fd, to_submit, min_complete, flags, std::ptr::null(), 0) }
        };
        if r < 0 { -errno() } else { r }
    }

    pub fn register(&self, opcode: u32, arg: *const c_void, nr: u32) -> i32 {
        let r = unsafe { (self.kt.register)(self.fd, opcode, arg, nr) };
        if r < 0 { -errno() } else { r }
    }

    pub fn reap(&mut self) -> Vec<(u64, i32, u32)> {
        let mut out = Vec::new();
        let mut head = self.cq_u32(0).load(Ordering::Acquire);
        let tail = self.cq_u32(1).load(Ordering::Acquire);
        let mask = self.cq_entries - 1;
        while head != tail {
            let p = unsafe { self.cq.0.add(self.cq_off[5] as usize + (head & mask) as usize * CQE_SIZE) };
            let ud = unsafe { p.cast::<u64>().read_volatile() };
            let res = unsafe { p.add(8).cast::<i32>().read_volatile() };
            let fl = unsafe { p.add(12).cast::<u32>().read_volatile() };
            out.push((ud, res, fl));
            head = head.wrapping_add(1);
        }
        self.cq_u32(0).store(head, Ordering::Release);
        out
    }

    /// Wait (bounded) until `n` completions are ready, then take everything.
    pub fn reap_n(&mut self, n: u32) -> Vec<(u64, i32, u32)> {
        for _ in 0..200 {
            if self.cq_ready() >= n {
                break;
            }
            let _ = self.enter(0, n, ENTER_GETEVENTS | ENTER_EXT_ARG, Some(5_000_000));
        }
        self.reap()
    }
}

impl Drop for RawRing {
    fn drop(&mut self) {
        unsafe {
            (self.kt.munmap)(self.sq.0.cast(), self.sq.1);
            (self.kt.munmap)(self.sqes.0.cast(), self.sqes.1);
            (self.kt.munmap)(self.cq.0.cast(), self.cq.1);
            libc::close(self.fd);
        }
    }
}

pub fn sqe(op: u8, fd: i32, ud: u64) -> [u8; SQE_SIZE] {
    let mut s = [0u8; SQE_SIZE];
    s[SQE_OPCODE] = op;
    s[SQE_FD..SQE_FD + 4].copy_from_slice(&fd.to_le_bytes());
    s[SQE_USER_DATA..SQE_USER_DATA + 8].copy_from_slice(&ud.to_le_bytes());
    s
}
fn set_u64(s: &mut [u8; SQE_SIZE], o: usize, v: u64) {
    s[o..o + 8].copy_from_slice(&v.to_le_bytes());
}
fn set_u32(s: &mut [u8; SQE_SIZE], o: usize, v: u32) {
    s[o..o + 4].copy_from_slice(&v.to_le_bytes());
}

fn poll_add(fd: i32, ud: u64) -> [u8; SQE_SIZE] {
    let mut s = sqe(OP_POLL_ADD, fd, ud);
    set_u32(&mut s, SQE_OPFLAGS, libc::POLLIN as u32);
    s
}
fn msg_ring(target: i32, ud: u64, msg_ud: u64, msg_res: u32, skip: bool) -> [u8; SQE_SIZE] {
    let mut s = sqe(OP_MSG_RING, target, ud);
    set_u64(&mut s, SQE_ADDR, MSG_DATA);
    set_u64(&mut s, SQE_OFF, msg_ud);
    set_u32(&mut s, SQE_LEN, msg_res);
    if skip {
        s[SQE_FLAGS] |= IOSQE_CQE_SKIP_SUCCESS;
    }
    s
}
fn cancel(target_ud: u64, ud: u64) -> [u8; SQE_SIZE] {
    let mut s = sqe(OP_ASYNC_CANCEL, -1, ud);
    set_u64(&mut s, SQE_ADDR, target_ud);
    s
}

fn fmt_cqes(c: &[(u64, i32, u32)]) -> String {
    c.iter().map(|(ud, res, fl)| format!("({ud:#x},{},{fl:#x})", rs(*res))).collect::<Vec<_>>().join(" ")
}
fn fmt_cqes_sorted(c: &[(u64, i32, u32)]) -> String {
    let mut c = c.to_vec();
    c.sort();
    fmt_cqes(&c)
}

const A10_FLAGS: u32 = SETUP_SUBMIT_ALL | SETUP_NO_SQARRAY;
const GE: u32 = ENTER_GETEVENTS | ENTER_EXT_ARG;
const MS: u64 = 2_000_000;

struct Pipe(i32, i32);
impl Pipe {
    fn new() -> Pipe {
        let mut f = [0i32; 2];
        assert_eq!(unsafe { libc::pipe2(f.as_mut_ptr(), libc::O_CLOEXEC) }, 0);
        Pipe(f[0], f[1])
    }
}
impl Drop for Pipe {
    fn drop(&mut self) {
        unsafe {
            libc::close(self.0);
            libc::close(self.1);
        }
    }
}

type T = Vec<(String, String)>;

fn t(out: &mut T, probe: impl Into<String>, obs: impl Into<String>) {
    out.push((probe.into(), obs.into()));
}

// ---------------------------------------------------------------------------

fn probe_setup(kt: Kernel, out: &mut T) {
    let mut one = |name: String, p: Params| {
        let r = match RawRing::new(kt, &p) {
            Ok(r) => format!("ok sq={} cq={}", r.sq_entries, r.cq_entries),
            Err(e) => format!("-{}", ename(e)),
        };
        t(out, format!("setup:{name}"), r);
    };
    for e in [0u32, 1, 2, 3, 5, 8, 100, 4096, 32768, 32769, 65536, 1 << 20] {
        one(format!("entries={e}"), Params::new(e, 0));
        one(format!("entries={e}:a10"), Params::new(e, A10_FLAGS));
        one(format!("entries={e}:clamp"), Params::new(e, SETUP_CLAMP));
    }
    for (e, c) in [(4u32, 0u32), (4, 1), (4, 3), (4, 4), (4, 5), (4, 64), (8, 7), (8, 8), (4, 65536), (4, 65537), (4, 131072), (32768, 65536), (3, 3), (3, 4)] {
        let mut p = Params::new(e, SETUP_CQSIZE);
        p.cq_entries = c;
        one(format!("cqsize:{e}/{c}"), p);
        let mut p = Params::new(e, SETUP_CQSIZE | SETUP_CLAMP);
        p.cq_entries = c;
        one(format!("cqsize+clamp:{e}/{c}"), p);
    }
    // Without the flag the requested size is ignored.
    let mut p = Params::new(4, 0);
    p.cq_entries = 64;
    one("cq-entries-without-flag".into(), p);
    for cpu in [0u32, 1, 15, 16, 17, 1000, u32::MAX] {
        let mut p = Params::new(4, SETUP_SQ_AFF);
        p.cpu = cpu;
        one(format!("sq_aff-without-sqpoll:cpu={cpu}"), p);
        let mut p = Params::new(4, SETUP_SQPOLL | SETUP_SQ_AFF);
        p.cpu = cpu;
        one(format!("sqpoll+sq_aff:cpu={cpu}"), p);
    }
    let combos: &[(&str, u32)] = &[
        ("sqpoll", SETUP_SQPOLL),
        ("single", SETUP_SINGLE_ISSUER),
        ("defer", SETUP_DEFER_TASKRUN),
        ("defer+single", SETUP_DEFER_TASKRUN | SETUP_SINGLE_ISSUER),
        ("defer+single+sqpoll", SETUP_DEFER_TASKRUN | SETUP_SINGLE_ISSUER | SETUP_SQPOLL),
        ("coop", SETUP_COOP_TASKRUN),
        ("coop+sqpoll", SETUP_COOP_TASKRUN | SETUP_SQPOLL),
        ("coop+single", SETUP_COOP_TASKRUN | SETUP_SINGLE_ISSUER),
        ("coop+defer+single", SETUP_COOP_TASKRUN | SETUP_DEFER_TASKRUN | SETUP_SINGLE_ISSUER),
        ("taskrun_flag", SETUP_TASKRUN_FLAG),
        ("taskrun_flag+coop", SETUP_TASKRUN_FLAG | SETUP_COOP_TASKRUN),
        ("taskrun_flag+sqpoll", SETUP_TASKRUN_FLAG | SETUP_SQPOLL),
        ("r_disabled", SETUP_R_DISABLED),
        ("r_disabled+single", SETUP_R_DISABLED | SETUP_SINGLE_ISSUER),
        ("r_disabled+sqpoll", SETUP_R_DISABLED | SETUP_SQPOLL),
        ("single+sqpoll", SETUP_SINGLE_ISSUER | SETUP_SQPOLL),
        ("submit_all", SETUP_SUBMIT_ALL),
        ("no_sqarray", SETUP_NO_SQARRAY),
        ("unknown-bit-25", 1 << 25),
        ("unknown-bit-31", 1 << 31),
    ];
    for (n, f) in combos {
        one(format!("flags:{n}"), Params::new(4, *f));
        one(format!("flags:{n}:a10"), Params::new(4, *f | A10_FLAGS));
    }
    let mut p = Params::new(4, 0);
    p.resv = 1;
    one("resv-nonzero".into(), p);
    // Attaching to another ring's worker pool.
    {
        let mut p = Params::new(4, SETUP_ATTACH_WQ);
        p.wq_fd = 987_654;
        one("attach:closed-fd".into(), p);
        let pipe = Pipe::new();
        let mut p = Params::new(4, SETUP_ATTACH_WQ);
        p.wq_fd = pipe.0 as u32;
        one("attach:not-a-ring".into(), p);
        if let Ok(base) = RawRing::new(kt, &Params::new(4, 0)) {
            let mut p = Params::new(4, SETUP_ATTACH_WQ);
            p.wq_fd = base.fd as u32;
            one("attach:ring".into(), p);
            let mut p = Params::new(4, SETUP_ATTACH_WQ | SETUP_SQPOLL);
            p.wq_fd = base.fd as u32;
            one("attach+sqpoll:ring-without-thread".into(), p);
            // Without the flag the descriptor is ignored.
            let mut p = Params::new(4, 0);
            p.wq_fd = 987_654;
            one("wq_fd-without-flag".into(), p);
        }
        if let Ok(base) = RawRing::new(kt, &Params::new(4, SETUP_SQPOLL)) {
            let mut p = Params::new(4, SETUP_ATTACH_WQ | SETUP_SQPOLL);
            p.wq_fd = base.fd as u32;
            one("attach+sqpoll:ring-with-thread".into(), p);
            let mut p = Params::new(4, SETUP_ATTACH_WQ);
            p.wq_fd = base.fd as u32;
            one("attach:ring-with-thread".into(), p);
        }
    }
}

fn probe_enter(kt: Kernel, out: &mut T) {
    let Ok(mut r) = RawRing::new(kt, &Params::new(4, A10_FLAGS)) else {
        t(out, "enter:ring", "unavailable");
        return;
    };
    let pipe = Pipe::new();
    t(out, "enter:closed-fd", rs(r.enter_raw(987_654, 0, 0, 0, None, 0)));
    t(out, "enter:not-a-ring", rs(r.enter_raw(pipe.0, 0, 0, 0, None, 0)));
    t(out, "enter:unknown-flag", rs(r.enter(0, 0, 1 << 20, None)));
    t(out, "enter:ext-arg-wrong-size", rs(r.enter_raw(r.fd, 0, 0, GE, Some(MS), 8)));
    t(out, "enter:nothing", rs(r.enter(0, 0, 0, None)));
    t(out, "enter:nothing-getevents-0", rs(r.enter(0, 0, GE, Some(MS))));
    t(out, "enter:wait-1-timeout", rs(r.enter(0, 1, GE, Some(MS))));
    t(out, "enter:wait-1-zero-timeout", rs(r.enter(0, 1, GE, Some(0))));
    t(out, "enter:to-submit-but-empty", rs(r.enter(3, 0, 0, None)));
    // Two requests that never complete; waiting for one times out.
    r.push(poll_add(pipe.0, 0x1001));
    r.push(poll_add(pipe.0, 0x1002));
    t(out, "enter:submit-2-wait-1-timeout", rs(r.enter(2, 1, GE, Some(MS))));
    t(out, "enter:sq-head-after-2", r.sq_head().to_string());
    r.push(poll_add(pipe.0, 0x1003));
    t(out, "enter:to-submit-more-than-queued", rs(r.enter(5, 0, 0, None)));
    r.push(poll_add(pipe.0, 0x1004));
    r.push(poll_add(pipe.0, 0x1005));
    r.push(poll_add(pipe.0, 0x1006));
    t(out, "enter:to-submit-less-than-queued", rs(r.enter(1, 0, 0, None)));
    t(out, "enter:sq-head-after-partial", r.sq_head().to_string());
    t(out, "enter:rest", rs(r.enter(2, 0, 0, None)));
    t(out, "enter:cq-still-empty", r.cq_ready().to_string());
    // Cancel everything one by one.
    for (i, ud) in [0x1001u64, 0x1002, 0x1003, 0x1004, 0x1005, 0x1006].iter().enumerate() {
        r.push(cancel(*ud, 0x2000 + i as u64));
        let ret = r.enter(1, 2, GE, Some(50 * MS));
        let c = r.reap_n(2);
        t(out, format!("cancel:pending-poll:{i}"), format!("ret={} cqes={}", rs(ret), fmt_cqes_sorted(&c)));
        t(out, format!("~cancel:pending-poll-order:{i}"), fmt_cqes(&c));
    }
    r.push(cancel(0x1001, 0x2100));
    let ret = r.enter(1, 1, GE, Some(50 * MS));
    t(out, "cancel:already-gone", format!("ret={} cqes={}", rs(ret), fmt_cqes(&r.reap_n(1))));
    r.push(cancel(0xdead_0000, 0x2101));
    let ret = r.enter(1, 1, GE, Some(50 * MS));
    t(out, "cancel:never-existed", format!("ret={} cqes={}", rs(ret), fmt_cqes(&r.reap_n(1))));
    let mut s = cancel(0xdead_0000, 0x2102);
    s[SQE_FLAGS] |= IOSQE_CQE_SKIP_SUCCESS;
    r.push(s);
    let ret = r.enter(1, 1, GE, Some(50 * MS));
    t(out, "cancel:never-existed:skip-success", format!("ret={} cqes={}", rs(ret), fmt_cqes(&r.reap_n(1))));
    r.push(poll_add(pipe.0, 0x1010));
    let mut s = cancel(0x1010, 0x2103);
    s[SQE_FLAGS] |= IOSQE_CQE_SKIP_SUCCESS;
    r.push(s);
    let ret = r.enter(2, 1, GE, Some(50 * MS));
    t(out, "cancel:pending-poll:skip-success", format!("ret={} cqes={}", rs(ret), fmt_cqes(&r.reap_n(1))));
    // Cancel on another ring does not find it.
    if let Ok(mut other) = RawRing::new(kt, &Params::new(4, A10_FLAGS)) {
        r.push(poll_add(pipe.0, 0x1020));
        let _ = r.enter(1, 0, 0, None);
        other.push(cancel(0x1020, 0x2200));
        let ret = other.enter(1, 1, GE, Some(50 * MS));
        t(out, "cancel:target-on-other-ring", format!("ret={} cqes={} own={}", rs(ret), fmt_cqes(&other.reap_n(1)), r.cq_ready()));
    }
}

fn probe_msg_ring(kt: Kernel, out: &mut T) {
    let (Ok(mut a), Ok(mut b)) = (RawRing::new(kt, &Params::new(4, A10_FLAGS)), RawRing::new(kt, &Params::new(4, A10_FLAGS))) else {
        t(out, "msg:rings", "unavailable");
        return;
    };
    a.push(msg_ring(b.fd, 0x3001, 0x77, 5, false));
    let ret = a.enter(1, 1, GE, Some(50 * MS));
    t(out, "msg:to-other", format!("ret={} sender={} target={}", rs(ret), fmt_cqes(&a.reap_n(1)), fmt_cqes(&b.reap_n(1))));
    a.push(msg_ring(b.fd, 0x3002, 2, 0, true));
    let ret = a.enter(1, 0, GE, Some(MS));
    t(out, "msg:to-other:skip-success", format!("ret={} sender={} target={}", rs(ret), fmt_cqes(&a.reap()), fmt_cqes(&b.reap_n(1))));
    a.push(msg_ring(a.fd, 0x3003, 0x78, 9, false));
    let ret = a.enter(1, 2, GE, Some(50 * MS));
    t(out, "msg:to-self", format!("ret={} cqes={}", rs(ret), fmt_cqes(&a.reap_n(2))));
    let pipe = Pipe::new();
    a.push(msg_ring(pipe.0, 0x3004, 0x79, 9, false));
    let ret = a.enter(1, 1, GE, Some(50 * MS));
    t(out, "msg:to-not-a-ring", format!("ret={} cqes={}", rs(ret), fmt_cqes(&a.reap_n(1))));
    a.push(msg_ring(987_654, 0x3005, 0x79, 9, false));
    let ret = a.enter(1, 1, GE, Some(50 * MS));
    t(out, "msg:to-closed-fd", format!("ret={} cqes={}", rs(ret), fmt_cqes(&a.reap_n(1))));
    if let Ok(mut d) = RawRing::new(kt, &Params::new(4, A10_FLAGS | SETUP_R_DISABLED)) {
        a.push(msg_ring(d.fd, 0x3006, 0x7a, 1, false));
        let ret = a.enter(1, 1, GE, Some(50 * MS));
        t(out, "msg:to-disabled-ring", format!("ret={} cqes={} target={}", rs(ret), fmt_cqes(&a.reap_n(1)), fmt_cqes(&d.reap())));
    }
    // The blind register form a10 uses for wake-ups (no ring needed by the sender).
    let s = msg_ring(b.fd, 0, 2, 0, false);
    let r = unsafe { (kt.register)(-1, REGISTER_SEND_MSG_RING, s.as_ptr().cast(), 1) };
    t(out, "msg:register-form", format!("ret={} target={}", rs(if r < 0 { -errno() } else { r }), fmt_cqes(&b.reap_n(1))));
    let r = unsafe { (kt.register)(-1, REGISTER_SEND_MSG_RING, s.as_ptr().cast(), 2) };
    t(out, "msg:register-form:nr=2", rs(if r < 0 { -errno() } else { r }));
    let s2 = poll_add(pipe.0, 1);
    let r = unsafe { (kt.register)(-1, REGISTER_SEND_MSG_RING, s2.as_ptr().cast(), 1) };
    t(out, "msg:register-form:other-opcode", rs(if r < 0 { -errno() } else { r }));
    let s3 = msg_ring(987_654, 0, 2, 0, false);
    let r = unsafe { (kt.register)(-1, REGISTER_SEND_MSG_RING, s3.as_ptr().cast(), 1) };
    t(out, "msg:register-form:closed-target", rs(if r < 0 { -errno() } else { r }));
    // A sleeping waiter is woken by a message from another thread.
    let bfd = b.fd;
    let h = std::thread::spawn(move || {
        std::thread::sleep(std::time::Duration::from_millis(30));
        let s = msg_ring(bfd, 0, 2, 0, false);
        unsafe { (kt.register)(-1, REGISTER_SEND_MSG_RING, s.as_ptr().cast(), 1) }
    });
    let ret = b.enter(0, 1, GE, Some(5_000 * MS / 2));
    let _ = h.join();
    // Simulated time: a timed wait in simk expires at once, the message is still delivered.
    t(out, "~msg:wakes-waiter:ret", rs(ret));
    t(out, "msg:wakes-waiter:cqes", fmt_cqes(&b.reap_n(1)));
}

fn probe_overflow(kt: Kernel, out: &mut T) {
    let Ok(mut r) = RawRing::new(kt, &Params::new(2, A10_FLAGS)) else {
        t(out, "overflow:ring", "unavailable");
        return;
    };
    t(out, "overflow:cq-size", r.cq_entries.to_string());
    let mut n = 0u64;
    for batch in 0..4 {
        for _ in 0..2 {
            n += 1;
            if n > 7 {
                break;
            }
            r.push(msg_ring(r.fd, 0x4000 + n, 0x100 + n, n as u32, true));
        }
        let q = if n > 7 { 1 } else { 2 };
        let ret = r.enter(q, 0, 0, None);
        t(out, format!("overflow:batch{batch}"), format!("ret={} ready={} ovflag={} dropped={}", rs(ret), r.cq_ready(), r.sq_flags() & SQ_CQ_OVERFLOW != 0, r.cq_overflow()));
    }
    let c = r.reap();
    t(out, "overflow:first-reap", fmt_cqes(&c));
    t(out, "overflow:flag-after-reap", format!("ready={} ovflag={}", r.cq_ready(), r.sq_flags() & SQ_CQ_OVERFLOW != 0));
    let ret = r.enter(0, 0, GE, Some(MS));
    t(out, "overflow:flush-enter", format!("ret={} ready={} ovflag={}", rs(ret), r.cq_ready(), r.sq_flags() & SQ_CQ_OVERFLOW != 0));
    t(out, "overflow:second-reap", fmt_cqes(&r.reap()));
}

fn probe_disabled(kt: Kernel, out: &mut T) {
    let Ok(mut r) = RawRing::new(kt, &Params::new(4, A10_FLAGS | SETUP_R_DISABLED)) else {
        t(out, "disabled:ring", "unavailable");
        return;
    };
    t(out, "disabled:enter", rs(r.enter(0, 0, 0, None)));
    t(out, "disabled:enter-getevents", rs(r.enter(0, 1, GE, Some(MS))));
    r.push(msg_ring(r.fd, 0x5001, 0x51, 1, true));
    t(out, "disabled:submit", rs(r.enter(1, 0, 0, None)));
    t(out, "disabled:enable", rs(r.register(REGISTER_ENABLE_RINGS, std::ptr::null(), 0)));
    t(out, "disabled:enable-again", rs(r.register(REGISTER_ENABLE_RINGS, std::ptr::null(), 0)));
    t(out, "disabled:submit-after-enable", rs(r.enter(1, 0, 0, None)));
    t(out, "disabled:cqes", fmt_cqes(&r.reap_n(1)));
    if let Ok(e) = RawRing::new(kt, &Params::new(4, A10_FLAGS)) {
        t(out, "enable:not-disabled", rs(e.register(REGISTER_ENABLE_RINGS, std::ptr::null(), 0)));
        t(out, "register:unknown-opcode", rs(e.register(9999, std::ptr::null(), 0)));
    }
    let r2 = unsafe { (kt.register)(987_654, REGISTER_ENABLE_RINGS, std::ptr::null(), 0) };
    t(out, "register:closed-fd", rs(if r2 < 0 { -errno() } else { r2 }));
}

fn probe_single_issuer(kt: Kernel, out: &mut T) {
    if let Ok(mut r) = RawRing::new(kt, &Params::new(4, A10_FLAGS | SETUP_SINGLE_ISSUER)) {
        t(out, "single:own-thread", rs(r.enter(0, 0, 0, None)));
        r.push(msg_ring(r.fd, 0x7001, 0x71, 1, true));
        let (ret, wait, sub, reg, mut r) = std::thread::spawn(move || {
            (r.enter(0, 0, 0, None), r.enter(0, 1, GE, Some(MS)), r.enter(1, 0, 0, None), r.register(REGISTER_ENABLE_RINGS, std::ptr::null(), 0), r)
        })
        .join()
        .unwrap();
        t(out, "single:other-thread-enter-nothing", rs(ret));
        t(out, "single:other-thread-wait", rs(wait));
        t(out, "single:other-thread-submit", rs(sub));
        t(out, "single:other-thread-register", rs(reg));
        t(out, "single:own-thread-submit", rs(r.enter(1, 0, 0, None)));
        t(out, "single:cqes", fmt_cqes(&r.reap_n(1)));
    }
    if let Ok(r) = RawRing::new(kt, &Params::new(4, A10_FLAGS | SETUP_SINGLE_ISSUER | SETUP_R_DISABLED)) {
        // Whoever enables the ring becomes the issuer.
        let mut r = r;
        r.push(msg_ring(r.fd, 0x7002, 0x72, 1, true));
        r.push(msg_ring(r.fd, 0x7003, 0x73, 1, true));
        let (en, ret, r) = std::thread::spawn(move || (r.register(REGISTER_ENABLE_RINGS, std::ptr::null(), 0), r.enter(1, 0, 0, None), r)).join().unwrap();
        t(out, "single+disabled:enable-on-other-thread", rs(en));
        t(out, "single+disabled:submit-on-enabling-thread", rs(ret));
        t(out, "single+disabled:submit-on-creating-thread", rs(r.enter(1, 0, 0, None)));
    }
    if let Ok(r) = RawRing::new(kt, &Params::new(4, A10_FLAGS | SETUP_SINGLE_ISSUER | SETUP_DEFER_TASKRUN)) {
        let (ret, nothing, r) = std::thread::spawn(move || (r.enter(0, 0, GE, Some(MS)), r.enter(0, 0, 0, None), r)).join().unwrap();
        t(out, "defer:other-thread-getevents", rs(ret));
        t(out, "defer:other-thread-enter-nothing", rs(nothing));
        t(out, "defer:own-thread-getevents", rs(r.enter(0, 0, GE, Some(MS))));
    }
}

struct Page(*mut u8, usize);
impl Page {
    fn new(len: usize) -> Page {
        let l = std::alloc::Layout::from_size_align(len, 4096).unwrap();
        Page(unsafe { std::alloc::alloc_zeroed(l) }, len)
    }
}
impl Drop for Page {
    fn drop(&mut self) {
        unsafe { std::alloc::dealloc(self.0, std::alloc::Layout::from_size_align(self.1, 4096).unwrap()) };
    }
}

fn buf_reg(addr: u64, entries: u32, bgid: u16, flags: u16) -> [u8; 40] {
    let mut b = [0u8; 40];
    b[0..8].copy_from_slice(&addr.to_le_bytes());
    b[8..12].copy_from_slice(&entries.to_le_bytes());
    b[12..14].copy_from_slice(&bgid.to_le_bytes());
    b[14..16].copy_from_slice(&flags.to_le_bytes());
    b
}

fn probe_register(kt: Kernel, out: &mut T) {
    let Ok(r) = RawRing::new(kt, &Params::new(4, A10_FLAGS)) else {
        t(out, "register:ring", "unavailable");
        return;
    };
    let page = Page::new(8192);
    let addr = page.0 as u64;
    let reg = |r: &RawRing, a: u64, e: u32, g: u16, f: u16, nr: u32| {
        let b = buf_reg(a, e, g, f);
        rs(r.register(REGISTER_PBUF_RING, b.as_ptr().cast(), nr))
    };
    t(out, "pbuf:register", reg(&r, addr, 4, 7, 0, 1));
    t(out, "pbuf:register-same-group", reg(&r, addr + 4096, 4, 7, 0, 1));
    t(out, "pbuf:register-not-pow2", reg(&r, addr + 4096, 3, 8, 0, 1));
    t(out, "pbuf:register-zero-entries", reg(&r, addr + 4096, 0, 8, 0, 1));
    t(out, "pbuf:register-too-many", reg(&r, addr + 4096, 65536, 8, 0, 1));
    t(out, "pbuf:register-misaligned", reg(&r, addr + 4096 + 16, 4, 8, 0, 1));
    t(out, "pbuf:register-null", reg(&r, 0, 4, 8, 0, 1));
    t(out, "pbuf:register-nr=2", reg(&r, addr + 4096, 4, 8, 0, 2));
    let b = buf_reg(0, 0, 9, 0);
    t(out, "pbuf:unregister-unknown", rs(r.register(UNREGISTER_PBUF_RING, b.as_ptr().cast(), 1)));
    let b = buf_reg(0, 0, 7, 0);
    t(out, "pbuf:unregister", rs(r.register(UNREGISTER_PBUF_RING, b.as_ptr().cast(), 1)));
    t(out, "pbuf:unregister-again", rs(r.register(UNREGISTER_PBUF_RING, b.as_ptr().cast(), 1)));
    t(out, "pbuf:register-after-unregister", reg(&r, addr, 4, 7, 0, 1));

    // Sparse file table.
    let files2 = |nr: u32, flags: u32| {
        let mut a = [0u8; 32];
        a[0..4].copy_from_slice(&nr.to_le_bytes());
        a[4..8].copy_from_slice(&flags.to_le_bytes());
        a
    };
    let upd = |off: u32, fds: &[i32]| {
        let mut a = [0u8; 16];
        a[0..4].copy_from_slice(&off.to_le_bytes());
        a[8..16].copy_from_slice(&(fds.as_ptr() as u64).to_le_bytes());
        a
    };
    let minus1 = [-1i32, -1];
    let u = upd(0, &minus1);
    t(out, "files:update-without-table", rs(r.register(REGISTER_FILES_UPDATE, u.as_ptr().cast(), 1)));
    let a = files2(0, RSRC_REGISTER_SPARSE);
    t(out, "files:register-zero", rs(r.register(REGISTER_FILES2, a.as_ptr().cast(), 32)));
    let a = files2(8, RSRC_REGISTER_SPARSE);
    t(out, "files:register-wrong-size", rs(r.register(REGISTER_FILES2, a.as_ptr().cast(), 16)));
    t(out, "files:register-sparse-8", rs(r.register(REGISTER_FILES2, a.as_ptr().cast(), 32)));
    t(out, "files:register-again", rs(r.register(REGISTER_FILES2, a.as_ptr().cast(), 32)));
    t(out, "files:update-empty-slot", rs(r.register(REGISTER_FILES_UPDATE, u.as_ptr().cast(), 1)));
    t(out, "files:update-two-empty-slots", rs(r.register(REGISTER_FILES_UPDATE, u.as_ptr().cast(), 2)));
    let u = upd(7, &minus1);
    t(out, "files:update-last-slot", rs(r.register(REGISTER_FILES_UPDATE, u.as_ptr().cast(), 1)));
    let u = upd(8, &minus1);
    t(out, "files:update-past-end", rs(r.register(REGISTER_FILES_UPDATE, u.as_ptr().cast(), 1)));
    if let Ok(big) = RawRing::new(kt, &Params::new(4, A10_FLAGS)) {
        let a = files2(u32::MAX, RSRC_REGISTER_SPARSE);
        t(out, "files:register-huge", rs(big.register(REGISTER_FILES2, a.as_ptr().cast(), 32)));
    }
}

fn probe_sync_cancel(kt: Kernel, out: &mut T) {
    let Ok(mut r) = RawRing::new(kt, &Params::new(4, A10_FLAGS)) else {
        t(out, "sync-cancel:ring", "unavailable");
        return;
    };
    let pipe = Pipe::new();
    let arg = |flags: u32, sec: i64, nsec: i64| {
        let mut a = [0u8; 64];
        a[8..12].copy_from_slice(&(-1i32).to_le_bytes());
        a[12..16].copy_from_slice(&flags.to_le_bytes());
        a[16..24].copy_from_slice(&sec.to_le_bytes());
        a[24..32].copy_from_slice(&nsec.to_le_bytes());
        a
    };
    let a = arg(ASYNC_CANCEL_ANY, -1, -1);
    t(out, "sync-cancel:nothing-in-flight", rs(r.register(REGISTER_SYNC_CANCEL, a.as_ptr().cast(), 1)));
    r.push(poll_add(pipe.0, 0x6001));
    r.push(poll_add(pipe.0, 0x6002));
    let _ = r.enter(2, 0, 0, None);
    let ret = r.register(REGISTER_SYNC_CANCEL, a.as_ptr().cast(), 1);
    t(out, "sync-cancel:two-polls", format!("ret={} cqes={}", rs(ret), fmt_cqes_sorted(&r.reap_n(2))));
}

fn run_all(kt: Kernel) -> T {
    let mut out = T::new();
    probe_setup(kt, &mut out);
    probe_enter(kt, &mut out);
    probe_msg_ring(kt, &mut out);
    probe_overflow(kt, &mut out);
    probe_disabled(kt, &mut out);
    probe_single_issuer(kt, &mut out);
    probe_register(kt, &mut out);
    probe_sync_cancel(kt, &mut out);
    out
}

pub fn run(rep: &mut Report, seed: u64) {
    // Is there a real io_uring at all?
    simk::uninstall();
    let avail = match RawRing::new(real_table(), &Params::new(4, 0)) {
        Ok(_) => true,
        Err(e) => {
            rep.count(&format!("real_kernel_unavailable:{}", ename(e)), 1);
            false
        }
    };
    if !avail {
        rep.cell("conform:skipped".to_string());
        return;
    }
    let real = run_all(real_table());
    simk::reset(seed);
    let sim = run_all(simk::table());
    // Findings simk's own oracles raised about this raw driver are not about a10.
    simk::k().violations.clear();
    simk::reset(seed);
    let verbose = std::env::var("VERIF_CONFORM_VERBOSE").is_ok();
    let mut compared = 0u64;
    let mut mismatches = 0u64;
    for (i, (name, robs)) in real.iter().enumerate() {
        let sobs = sim.get(i).filter(|(n, _)| n == name).map(|(_, o)| o.as_str()).unwrap_or("<missing>");
        if verbose {
            eprintln!("{name:55} real: {robs:40} sim: {sobs}");
        }
        if name.starts_with('~') {
            rep.count("conform_informational", 1);
            continue;
        }
        compared += 1;
        let group = name.split(':').next().unwrap_or("?").to_string();
        rep.cell(format!("conform:{group}"));
        if robs != sobs {
            mismatches += 1;
            rep.violation(crate::out::ViolationOut {
                prop: "SIMK".into(),
                sig: format!("simk-differs:{name}"),
                detail: format!("probe {name}: real kernel observed `{robs}`, simulated kernel `{sobs}`"),
                scenario: "conform".into(),
                seed,
                index: i as u64,
                trace: Vec::new(),
            });
        }
    }
    if real.len() != sim.len() {
        rep.violation(crate::out::ViolationOut {
            prop: "SIMK".into(),
            sig: "simk-differs:transcript-length".into(),
            detail: format!("{} vs {} probes", real.len(), sim.len()),
            scenario: "conform".into(),
            seed,
            index: 0,
            trace: Vec::new(),
        });
    }
    rep.count("conform_probes_compared", compared);
    rep.count("conform_mismatches", mismatches);
    rep.history(seed ^ compared, true, || format!("{compared} probes compared, {mismatches} differ"));
}
