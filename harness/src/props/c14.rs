//! C14: buffer trait laws (pure calls, no kernel involved).

use std::borrow::Cow;
use std::sync::Arc;

use a10::io::{Buf, BufMut, BufMutSlice, BufSlice, IoMutSlice, IoSlice, StaticBuf};

use crate::out::{Report, ViolationOut};
use crate::rng::{Rng, fnv};

struct Ctx<'a> {
    rep: &'a mut Report,
    seed: u64,
    index: u64,
}

impl Ctx<'_> {
    fn fail(&mut self, sig: &str, detail: String) {
        self.rep.violation(ViolationOut {
            prop: "C14".into(),
            sig: sig.into(),
            detail,
            scenario: "c14".into(),
            seed: self.seed,
            index: self.index,
            trace: Vec::new(),
        });
    }
    fn case(&mut self, class: &str, desc: String) {
        let sig = fnv(fnv(0, class.as_bytes()), desc.as_bytes());
        self.rep.cell(format!("class:{class}"));
        self.rep.history(sig, true, || format!("{class} {desc}"));
    }
}

pub fn limits_for(cap: usize) -> Vec<usize> {
    let mut v = vec![0, 1, cap.saturating_sub(1), cap, cap + 1, (u32::MAX as usize) - 1, u32::MAX as usize];
    if usize::BITS > 32 {
        v.extend_from_slice(&[1usize << 32, (1usize << 32) + 5, (1usize << 32) + cap.max(1) - 1, 1usize << 40, usize::MAX - 1, usize::MAX]);
    }
    v.sort();
    v.dedup();
    v
}

fn pat(i: usize) -> u8 {
    (i as u8).wrapping_mul(31).wrapping_add(7) | 0x80
}

fn mk_vec(cap: usize, fill: usize) -> Vec<u8> {
    let mut v = Vec::with_capacity(cap);
    for i in 0..fill.min(cap) {
        v.push((i as u8) & 0x7f);
    }
    v
}

/// Laws of one `BufMut` around a `Vec<u8>` (possibly limited): returns the
/// number of bytes that may be written.
fn check_buf_mut<B: BufMut>(c: &mut Ctx<'_>, name: &str, buf: &mut B, inner: impl Fn(&B) -> &Vec<u8>, allowed: usize, n: usize) {
    let before = inner(buf).clone();
    let vec_ptr = inner(buf).as_ptr().addr();
    let vec_cap = inner(buf).capacity();
    let (ptr, len) = unsafe { buf.parts_mut() };
    let len = len as usize;
    if len != allowed {
        c.fail(&format!("bufmut-len:{name}"), format!("{name}: parts_mut len {len}, expected {allowed} (len {} cap {vec_cap})", before.len()));
        return;
    }
    if buf.spare_capacity() as usize != len {
        c.fail(&format!("bufmut-spare-capacity:{name}"), format!("{name}: spare_capacity() {} != parts_mut len {len}", buf.spare_capacity()));
    }
    if buf.has_spare_capacity() != (len != 0) {
        c.fail(&format!("bufmut-has-spare-capacity:{name}"), format!("{name}: has_spare_capacity() {} but parts_mut len {len}", buf.has_spare_capacity()));
    }
    if len > 0 {
        let start = ptr.addr();
        if start != vec_ptr + before.len() || start + len > vec_ptr + vec_cap {
            c.fail(&format!("bufmut-pointer-outside:{name}"), format!("{name}: parts_mut ({start:#x},{len}) not inside the vector's spare capacity"));
            return;
        }
    }
    let n = n.min(len);
    for i in 0..n {
        unsafe { ptr.add(i).write(pat(i)) };
    }
    unsafe { buf.set_init(n) };
    let after = inner(buf);
    let mut expect = before.clone();
    expect.extend((0..n).map(pat));
    if *after != expect {
        c.fail(&format!("bufmut-set-init:{name}"), format!("{name}: after writing {n} bytes and set_init({n}) contents differ from old contents + {n} new bytes"));
    }
}

fn iovecs_of<const N: usize>(v: &[IoSlice; N]) -> [(usize, usize); N] {
    // IoSlice wraps a `struct iovec` (a10 passes arrays of them to the kernel).
    assert!(std::mem::size_of::<IoSlice>() == std::mem::size_of::<libc::iovec>());
    let mut out = [(0, 0); N];
    for (i, s) in v.iter().enumerate() {
        let io: &libc::iovec = unsafe { &*(std::ptr::from_ref(s).cast()) };
        out[i] = (io.iov_base.addr(), io.iov_len);
    }
    out
}

fn iovecs_mut_of<const N: usize>(v: &[IoMutSlice; N]) -> [(*mut u8, usize); N] {
    assert!(std::mem::size_of::<IoMutSlice>() == std::mem::size_of::<libc::iovec>());
    let mut out = [(std::ptr::null_mut(), 0); N];
    for (i, s) in v.iter().enumerate() {
        let io: &libc::iovec = unsafe { &*(std::ptr::from_ref(s).cast()) };
        out[i] = (io.iov_base.cast::<u8>(), io.iov_len);
    }
    out
}

fn geom_of(vs: &[&Vec<u8>]) -> Vec<(usize, usize, usize)> {
    vs.iter().map(|v| (v.as_ptr().addr(), v.len(), v.capacity())).collect()
}

/// Laws of a `BufMutSlice` made of vectors with geometry `geom` (pointer, len,
/// capacity of each vector). With `after` the contents after `set_init(n)` are
/// checked as well.
fn check_mut_slice<B: BufMutSlice<N>, const N: usize>(
    c: &mut Ctx<'_>,
    name: &str,
    bufs: &mut B,
    geom: &[(usize, usize, usize)],
    before: &[Vec<u8>],
    limit: Option<usize>,
    after: Option<&dyn Fn(&B) -> Vec<Vec<u8>>>,
    n: usize,
) {
    let total_spare: usize = geom.iter().map(|g| g.2 - g.1).sum();
    let allowed = limit.map_or(total_spare, |l| l.min(total_spare));
    let iov = unsafe { bufs.as_iovecs_mut() };
    let parts = iovecs_mut_of(&iov);
    let sum: usize = parts.iter().map(|p| p.1).sum();
    if sum != allowed {
        c.fail(&format!("bufmutslice-total:{name}"), format!("{name}: iovec lengths sum to {sum}, expected {allowed} (spare {total_spare}, limit {limit:?})"));
        return;
    }
    if bufs.total_spare_capacity() as usize != sum {
        c.fail(&format!("bufmutslice-total-spare-capacity:{name}"), format!("{name}: total_spare_capacity() {} != sum of iovec lengths {sum} (limit {limit:?})", bufs.total_spare_capacity()));
    }
    if bufs.has_spare_capacity() != (sum != 0) {
        c.fail(&format!("bufmutslice-has-spare-capacity:{name}"), format!("{name}: has_spare_capacity() {} but iovecs total {sum} (limit {limit:?})", bufs.has_spare_capacity()));
    }
    // Each iovec is a prefix of the corresponding buffer's spare capacity, in order.
    let mut left = allowed;
    for (i, (p, l)) in parts.iter().enumerate() {
        let spare = geom[i].2 - geom[i].1;
        let want = spare.min(left);
        left -= want;
        if *l != want {
            c.fail(&format!("bufmutslice-iovec-len:{name}"), format!("{name}: iovec {i} has len {l}, expected {want}"));
            return;
        }
        if *l > 0 && p.addr() != geom[i].0 + geom[i].1 {
            c.fail(&format!("bufmutslice-pointer-outside:{name}"), format!("{name}: iovec {i} does not start at the buffer's spare capacity"));
            return;
        }
    }
    let Some(after) = after else { return };
    let n_raw = n;
    let n = n.min(allowed);
    if n_raw % 3 == 1 {
        // The provided helper: copies as much as fits, in order across the buffers, and marks it initialised.
        drop(iov);
        let bytes: Vec<u8> = (0..n_raw).map(pat).collect();
        let wrote = bufs.extend_from_slice(&bytes);
        if wrote != n {
            c.fail(&format!("bufmutslice-extend-from-slice:{name}"), format!("{name}: extend_from_slice of {n_raw} bytes with {allowed} bytes of room returned {wrote}"));
            return;
        }
        c.rep.cell("BufMutSlice:extend_from_slice");
    } else {
        // Kernel-style fill of the first n bytes.
        let mut k = 0;
        for (p, l) in parts.iter() {
            for j in 0..*l {
                if k == n {
                    break;
                }
                unsafe { p.add(j).write(pat(k)) };
                k += 1;
            }
        }
        drop(iov);
        unsafe { bufs.set_init(n) };
    }
    let after = after(bufs);
    let mut k = 0;
    let mut left = n;
    for (i, b) in before.iter().enumerate() {
        let spare = geom[i].2 - geom[i].1;
        let take = spare.min(left);
        left -= take;
        let mut expect = b.clone();
        expect.extend((k..k + take).map(pat));
        k += take;
        if after[i] != expect {
            c.fail(&format!("bufmutslice-set-init:{name}"), format!("{name}: buffer {i} after set_init({n}): len {} expected len {} (or contents differ)", after[i].len(), expect.len()));
            return;
        }
    }
}

fn check_buf<B: Buf>(c: &mut Ctx<'_>, name: &str, buf: &B, content: &[u8], limit: Option<usize>) {
    let want = limit.map_or(content.len(), |l| l.min(content.len()));
    let (ptr, len) = unsafe { buf.parts() };
    if len as usize != want {
        c.fail(&format!("buf-len:{name}"), format!("{name}: parts len {len}, expected {want} (content {}, limit {limit:?})", content.len()));
        return;
    }
    if buf.len() != want {
        c.fail(&format!("buf-len-method:{name}"), format!("{name}: len() {} expected {want} (limit {limit:?})", buf.len()));
    }
    if buf.is_empty() != (want == 0) {
        c.fail(&format!("buf-is-empty:{name}"), format!("{name}: is_empty() {} with {want} readable bytes", buf.is_empty()));
    }
    if want > 0 {
        let got = unsafe { std::slice::from_raw_parts(ptr, want) };
        if got != &content[..want] {
            c.fail(&format!("buf-content:{name}"), format!("{name}: bytes exposed differ from the buffer's contents"));
        }
    }
    if limit.is_none() && buf.as_slice() != content {
        c.fail(&format!("buf-as-slice:{name}"), format!("{name}: as_slice differs"));
    }
}

fn check_slice<B: BufSlice<N>, const N: usize>(c: &mut Ctx<'_>, name: &str, bufs: &B, contents: &[Vec<u8>], limit: Option<usize>) {
    let total: usize = contents.iter().map(Vec::len).sum();
    let allowed = limit.map_or(total, |l| l.min(total));
    let iov = unsafe { bufs.as_iovecs() };
    let parts = iovecs_of(&iov);
    let sum: usize = parts.iter().map(|p| p.1).sum();
    if sum != allowed {
        c.fail(&format!("bufslice-total:{name}"), format!("{name}: iovec lengths sum to {sum}, expected {allowed} (total {total}, limit {limit:?})"));
        return;
    }
    if bufs.total_len() != allowed {
        c.fail(&format!("bufslice-total-len:{name}"), format!("{name}: total_len() {} expected {allowed} (limit {limit:?})", bufs.total_len()));
    }
    if bufs.is_empty() != (allowed == 0) {
        c.fail(&format!("bufslice-is-empty:{name}"), format!("{name}: is_empty() {} with {allowed} readable bytes", bufs.is_empty()));
    }
    let mut left = allowed;
    for (i, (p, l)) in parts.iter().enumerate() {
        let want = contents[i].len().min(left);
        left -= want;
        if *l != want {
            c.fail(&format!("bufslice-iovec-len:{name}"), format!("{name}: iovec {i} len {l} expected {want}"));
            return;
        }
        if *l > 0 {
            let got = unsafe { std::slice::from_raw_parts(std::ptr::with_exposed_provenance::<u8>(*p), *l) };
            if got != &contents[i][..*l] {
                c.fail(&format!("bufslice-content:{name}"), format!("{name}: iovec {i} exposes other bytes than the buffer's contents"));
            }
        }
    }
}

macro_rules! tuple_cases {
    ($c:expr, $rng:expr, $n:literal, $($i:tt),+) => {{
        // BufMutSlice over a tuple of vectors.
        let caps: Vec<usize> = (0..$n).map(|_| $rng.below(20) as usize).collect();
        let fills: Vec<usize> = caps.iter().map(|c| $rng.below(*c as u64 + 1) as usize).collect();
        let total_spare: usize = caps.iter().zip(&fills).map(|(c, f)| c - f).sum();
        let n = $rng.below(total_spare as u64 + 1) as usize;
        let mut t = ($( mk_vec(caps[$i], fills[$i]) ),+);
        let geom = geom_of(&[$( &t.$i ),+]);
        let before: Vec<Vec<u8>> = vec![$( t.$i.clone() ),+];
        check_mut_slice::<_, $n>($c, concat!("tuple", stringify!($n)), &mut t, &geom, &before, None, Some(&|t| vec![$( t.$i.clone() ),+]), n);
        let total_spare: usize = geom.iter().map(|g| g.2 - g.1).sum();
        let desc = format!("caps={caps:?} fills={fills:?} n={n}");
        $c.case(concat!("BufMutSlice:tuple", stringify!($n)), desc);
        // Limited.
        let limits = limits_for(total_spare);
        let limit = *$rng.pick(&limits);
        let t = ($( mk_vec(caps[$i], fills[$i]) ),+);
        let geom = geom_of(&[$( &t.$i ),+]);
        let mut l = BufMutSlice::limit(t, limit);
        check_mut_slice::<_, $n>($c, concat!("limited-tuple", stringify!($n)), &mut l, &geom, &[], Some(limit), None, 0);
        $c.case(concat!("BufMutSlice:limited-tuple", stringify!($n)), format!("caps={caps:?} fills={fills:?} limit={limit}"));
        // BufSlice over a tuple.
        let contents: Vec<Vec<u8>> = (0..$n).map(|i| mk_vec(caps[i], fills[i])).collect();
        let t = ($( contents[$i].clone() ),+);
        check_slice::<_, $n>($c, concat!("tuple", stringify!($n)), &t, &contents, None);
        let total: usize = contents.iter().map(Vec::len).sum();
        let limit = *$rng.pick(&limits_for(total));
        let l = BufSlice::limit(t, limit);
        check_slice::<_, $n>($c, concat!("limited-tuple", stringify!($n)), &l, &contents, Some(limit));
        $c.case(concat!("BufSlice:tuple", stringify!($n)), format!("lens={fills:?} limit={limit}"));
    }};
}

macro_rules! array_cases {
    ($c:expr, $rng:expr, $n:literal) => {{
        let caps: Vec<usize> = (0..$n).map(|_| $rng.below(20) as usize).collect();
        let fills: Vec<usize> = caps.iter().map(|c| $rng.below(*c as u64 + 1) as usize).collect();
        let total_spare: usize = caps.iter().zip(&fills).map(|(c, f)| c - f).sum();
        let n = $rng.below(total_spare as u64 + 1) as usize;
        let mut a: [Vec<u8>; $n] = std::array::from_fn(|i| mk_vec(caps[i], fills[i]));
        let geom = geom_of(&a.iter().collect::<Vec<_>>());
        let before: Vec<Vec<u8>> = a.to_vec();
        check_mut_slice::<_, $n>($c, concat!("array", stringify!($n)), &mut a, &geom, &before, None, Some(&|a| a.to_vec()), n);
        let total_spare: usize = geom.iter().map(|g| g.2 - g.1).sum();
        $c.case(concat!("BufMutSlice:array", stringify!($n)), format!("caps={caps:?} fills={fills:?} n={n}"));
        for limit in limits_for(total_spare) {
            let a: [Vec<u8>; $n] = std::array::from_fn(|i| mk_vec(caps[i], fills[i]));
            let geom = geom_of(&a.iter().collect::<Vec<_>>());
            let mut l = BufMutSlice::limit(a, limit);
            check_mut_slice::<_, $n>($c, concat!("limited-array", stringify!($n)), &mut l, &geom, &[], Some(limit), None, 0);
            // set_init through the limited wrapper, then look inside.
            let allowed = limit.min(total_spare);
            let n = $rng.below(allowed as u64 + 1) as usize;
            let iov = unsafe { l.as_iovecs_mut() };
            let parts = iovecs_mut_of(&iov);
            let mut k = 0;
            for (p, len) in parts.iter() {
                for j in 0..*len {
                    if k == n { break; }
                    unsafe { p.add(j).write(pat(k)) };
                    k += 1;
                }
            }
            drop(iov);
            unsafe { l.set_init(n) };
            let after_spare = l.total_spare_capacity() as usize;
            let expect_spare = (limit - n).min(total_spare - n);
            if after_spare != expect_spare {
                $c.fail(concat!("limited-after-set-init:array", stringify!($n)), format!("limit {limit}, wrote {n} of {allowed}: total_spare_capacity() now {after_spare}, expected {expect_spare}"));
            }
            let inner = l.into_inner();
            let got: usize = inner.iter().map(Vec::len).sum();
            let had: usize = fills.iter().sum();
            if got != had + n {
                $c.fail(concat!("limited-set-init:array", stringify!($n)), format!("limit {limit}: {n} bytes initialised, buffers grew by {}", got - had));
            }
            $c.case(concat!("BufMutSlice:limited-array", stringify!($n)), format!("caps={caps:?} fills={fills:?} limit={limit} n={n}"));
        }
        let contents: Vec<Vec<u8>> = (0..$n).map(|i| mk_vec(caps[i], fills[i])).collect();
        let a: [Vec<u8>; $n] = std::array::from_fn(|i| contents[i].clone());
        check_slice::<_, $n>($c, concat!("array", stringify!($n)), &a, &contents, None);
        let total: usize = contents.iter().map(Vec::len).sum();
        for limit in limits_for(total) {
            let a: [Vec<u8>; $n] = std::array::from_fn(|i| contents[i].clone());
            let l = BufSlice::limit(a, limit);
            check_slice::<_, $n>($c, concat!("limited-array", stringify!($n)), &l, &contents, Some(limit));
            $c.case(concat!("BufSlice:limited-array", stringify!($n)), format!("lens={fills:?} limit={limit}"));
        }
    }};
}

static STATIC_BYTES: &[u8] = b"static bytes for the C14 sweep: 0123456789abcdefghijklmnopqrstuvwxyz";
static STATIC_STR: &str = "static str for the C14 sweep: 0123456789";

fn single_buffers(c: &mut Ctx<'_>, rng: &mut Rng, exhaustive_small: bool) {
    // BufMut for Vec<u8> and LimitedBuf<Vec<u8>>.
    let caps: Vec<usize> = if exhaustive_small { (0..=12).collect() } else { vec![rng.below(65) as usize, 64 + rng.below(4000) as usize] };
    for cap in caps {
        let fills: Vec<usize> = if exhaustive_small { (0..=cap).collect() } else { vec![rng.below(cap as u64 + 1) as usize] };
        for fill in fills {
            let spare = cap - fill;
            let ns: Vec<usize> = if exhaustive_small { (0..=spare).collect() } else { vec![rng.below(spare as u64 + 1) as usize] };
            for n in ns {
                let mut v = mk_vec(cap, fill);
                let real_spare = v.capacity() - v.len();
                check_buf_mut(c, "Vec", &mut v, |v| v, real_spare, n);
                c.case("BufMut:Vec", format!("cap={cap} fill={fill} n={n}"));
            }
            for limit in limits_for(spare) {
                let v = mk_vec(cap, fill);
                let real_spare = v.capacity() - v.len();
                let mut l = BufMut::limit(v, limit);
                let allowed = limit.min(real_spare);
                let n = rng.below(allowed as u64 + 1) as usize;
                // Look through the wrapper by comparing with the result of into_inner.
                let (ptr, len) = unsafe { l.parts_mut() };
                if len as usize != allowed {
                    c.fail("limited-bufmut-len", format!("LimitedBuf<Vec>: limit {limit}, spare {real_spare}: parts_mut len {len}, expected {allowed}"));
                } else {
                    if l.spare_capacity() as usize != allowed {
                        c.fail("limited-bufmut-spare-capacity", format!("LimitedBuf<Vec>: limit {limit}, spare {real_spare}: spare_capacity() {} expected {allowed}", l.spare_capacity()));
                    }
                    if l.has_spare_capacity() != (allowed != 0) {
                        c.fail("limited-bufmut-has-spare-capacity", format!("LimitedBuf<Vec>: limit {limit}, spare {real_spare}: has_spare_capacity() {} but {allowed} bytes may be written", l.has_spare_capacity()));
                    }
                    for i in 0..n {
                        unsafe { ptr.add(i).write(pat(i)) };
                    }
                    unsafe { l.set_init(n) };
                    let left = l.spare_capacity() as usize;
                    let expect_left = (limit - n).min(real_spare - n);
                    if left != expect_left {
                        c.fail("limited-bufmut-after-set-init", format!("LimitedBuf<Vec>: limit {limit}, wrote {n}: spare_capacity() {left}, expected {expect_left}"));
                    }
                    let inner = l.into_inner();
                    let mut expect = mk_vec(cap, fill);
                    expect.extend((0..n).map(pat));
                    if inner != expect {
                        c.fail("limited-bufmut-set-init", format!("LimitedBuf<Vec>: limit {limit}: contents after set_init({n}) wrong"));
                    }
                }
                c.case("BufMut:LimitedBuf<Vec>", format!("cap={cap} fill={fill} limit={limit} n={n}"));
            }
        }
    }
    // extend_from_slice.
    for _ in 0..4 {
        let cap = rng.below(40) as usize;
        let fill = rng.below(cap as u64 + 1) as usize;
        let mut v = mk_vec(cap, fill);
        let spare = v.capacity() - v.len();
        let bytes: Vec<u8> = (0..rng.below(60) as usize).map(pat).collect();
        let n = BufMut::extend_from_slice(&mut v, &bytes);
        let mut expect = mk_vec(cap, fill);
        expect.extend_from_slice(&bytes[..bytes.len().min(spare)]);
        if n != bytes.len().min(spare) || v != expect {
            c.fail("bufmut-extend-from-slice", format!("Vec cap {cap} fill {fill}: extend_from_slice({}) returned {n}", bytes.len()));
        }
        c.case("BufMut:extend_from_slice", format!("cap={cap} fill={fill} bytes={}", bytes.len()));
    }
    // Buf implementations.
    let len = rng.below(70) as usize;
    let content: Vec<u8> = (0..len).map(|i| b'a' + (i % 26) as u8).collect();
    let text = String::from_utf8(content.clone()).unwrap();
    check_buf(c, "Vec", &content.clone(), &content, None);
    check_buf(c, "Box<[u8]>", &content.clone().into_boxed_slice(), &content, None);
    check_buf(c, "String", &text.clone(), &content, None);
    check_buf(c, "Box<str>", &text.clone().into_boxed_str(), &content, None);
    check_buf(c, "Arc<[u8]>", &Arc::<[u8]>::from(content.clone()), &content, None);
    check_buf(c, "Arc<str>", &Arc::<str>::from(text.clone()), &content, None);
    check_buf(c, "Cow<[u8]>::Owned", &Cow::<'static, [u8]>::Owned(content.clone()), &content, None);
    check_buf(c, "Cow<str>::Owned", &Cow::<'static, str>::Owned(text.clone()), &content, None);
    let s = rng.below(STATIC_BYTES.len() as u64 + 1) as usize;
    check_buf(c, "&'static [u8]", &&STATIC_BYTES[..s], &STATIC_BYTES[..s], None);
    check_buf(c, "Cow<[u8]>::Borrowed", &Cow::<'static, [u8]>::Borrowed(&STATIC_BYTES[..s]), &STATIC_BYTES[..s], None);
    check_buf(c, "StaticBuf", &StaticBuf::from(&STATIC_BYTES[..s]), &STATIC_BYTES[..s], None);
    check_buf(c, "&'static str", &STATIC_STR, STATIC_STR.as_bytes(), None);
    check_buf(c, "StaticBuf(str)", &StaticBuf::from(STATIC_STR), STATIC_STR.as_bytes(), None);
    c.case("Buf:all-types", format!("len={len} static={s}"));
    for limit in limits_for(len) {
        check_buf(c, "LimitedBuf<Vec>", &Buf::limit(content.clone(), limit), &content, Some(limit));
        check_buf(c, "LimitedBuf<String>", &Buf::limit(text.clone(), limit), &content, Some(limit));
        check_buf(c, "LimitedBuf<StaticBuf>", &Buf::limit(StaticBuf::from(STATIC_STR), limit), STATIC_STR.as_bytes(), Some(limit));
        // Nested limits.
        let l2 = *rng.pick(&limits_for(len));
        check_buf(c, "LimitedBuf<LimitedBuf<Vec>>", &Buf::limit(Buf::limit(content.clone(), limit), l2), &content, Some(limit.min(l2)));
        c.case("Buf:LimitedBuf", format!("len={len} limit={limit} nested={l2}"));
    }
}

pub fn run(seed: u64, start: u64, iters: u64, rep: &mut Report) {
    for index in start..start + iters {
        let mut rng = Rng::derive(seed, 0xC14, index);
        let mut c = Ctx { rep, seed, index };
        // The small exhaustive part runs once per process (index 0 of a shard).
        single_buffers(&mut c, &mut rng, index == start && !cfg!(miri));
        array_cases!(&mut c, rng, 1);
        array_cases!(&mut c, rng, 2);
        array_cases!(&mut c, rng, 3);
        array_cases!(&mut c, rng, 4);
        array_cases!(&mut c, rng, 5);
        array_cases!(&mut c, rng, 6);
        array_cases!(&mut c, rng, 7);
        array_cases!(&mut c, rng, 8);
        tuple_cases!(&mut c, rng, 2, 0, 1);
        tuple_cases!(&mut c, rng, 3, 0, 1, 2);
        tuple_cases!(&mut c, rng, 4, 0, 1, 2, 3);
        tuple_cases!(&mut c, rng, 5, 0, 1, 2, 3, 4);
        tuple_cases!(&mut c, rng, 6, 0, 1, 2, 3, 4, 5);
        tuple_cases!(&mut c, rng, 7, 0, 1, 2, 3, 4, 5, 6);
        tuple_cases!(&mut c, rng, 8, 0, 1, 2, 3, 4, 5, 6, 7);
    }
}
