//! E2 scenarios: several threads under the baton scheduler.

use std::sync::atomic::{AtomicU64, AtomicUsize, Ordering};
use std::sync::{Arc, Mutex};
use std::task::{Context, Poll};
use std::time::Duration;

use a10::{AsyncFd, Ring, SubmissionQueue};

use crate::mon::alloc::{self, MonGuard};
use crate::mon::fds;
use crate::mon::waker::new_waker;
use crate::ops::{DynOp, Outcome, fut_op};
use crate::out::{Report, ViolationOut};
use crate::rng::{Rng, fnv};
use crate::sched::{self, Policy};
use crate::simk::abi::*;
use crate::simk::{self, ReqState, effects};

/// Violations found by scenario threads.
#[derive(Default)]
pub struct Shared {
    pub viol: Mutex<Vec<(String, String, String)>>,
    pub events: Mutex<Vec<String>>,
    pub submitters_done: AtomicUsize,
    pub resolved: AtomicU64,
    pub gave_up: AtomicU64,
}

impl Shared {
    pub fn violation(&self, prop: &str, sig: impl Into<String>, detail: impl Into<String>) {
        let _g = MonGuard::new();
        self.viol.lock().unwrap_or_else(|e| e.into_inner()).push((prop.into(), sig.into(), detail.into()));
    }
    pub fn ev(&self, e: String) {
        let _g = MonGuard::new();
        let mut v = self.events.lock().unwrap_or_else(|e| e.into_inner());
        if v.len() < 300 {
            v.push(e);
        }
    }
}

/// Strict executor for one operation: poll, then wait (yielding to the
/// scheduler) until the waker fired before polling again.
pub fn drive(op: &mut Box<dyn DynOp>, max_waits: u64) -> Option<Outcome> {
    let (waker, ws) = {
        let _g = MonGuard::new();
        new_waker()
    };
    let mut cx = Context::from_waker(&waker);
    let mut seen = 0;
    loop {
        sched::point(sched::P_API);
        match alloc::a10(|| op.poll(&mut cx)) {
            Poll::Ready(o) => return Some(o),
            Poll::Pending => {}
        }
        let _ = max_waits;
        let ws2 = ws.clone();
        let ok = sched::wait_until(move || ws2.wakes() != seen);
        if !ok || sched::aborted() {
            return None;
        }
        seen = ws.wakes();
    }
}

fn finish(rep: &mut Report, scenario: &str, seed: u64, index: u64, shared: &Shared, sig: u64, nontrivial: bool, sample: String) {
    let kv = simk::k().take_violations();
    let trace: Vec<String> = shared.events.lock().unwrap_or_else(|e| e.into_inner()).clone();
    for v in kv {
        if v.prop == "BLOCK" {
            continue;
        }
        rep.violation(ViolationOut { prop: v.prop.into(), sig: v.sig, detail: v.detail, scenario: scenario.into(), seed, index, trace: trace.clone() });
    }
    for (prop, s, d) in shared.viol.lock().unwrap_or_else(|e| e.into_inner()).drain(..) {
        rep.violation(ViolationOut { prop, sig: s, detail: d, scenario: scenario.into(), seed, index, trace: trace.clone() });
    }
    for v in alloc::take_violations() {
        rep.violation(ViolationOut { prop: "C01".into(), sig: format!("alloc-violation:kind={}", v.kind), detail: format!("{v:?}"), scenario: scenario.into(), seed, index, trace: trace.clone() });
    }
    for m in crate::mon::logsink::take() {
        if m.contains("unexpected completion") {
            rep.violation(ViolationOut { prop: "C05".into(), sig: "unpublished-or-returned-slot-interpreted".into(), detail: m, scenario: scenario.into(), seed, index, trace: trace.clone() });
        }
    }
    rep.absorb_counters();
    rep.history(sig, nontrivial, || sample);
}

fn free_stats() -> sched::RunStats {
    sched::RunStats { steps: 0, switches: 0, trace_hash: 0, budget_exhausted: false, lock_blocks: 0, kernel_blocks: 0, points_by_id: [0; 16] }
}

fn policy_for(rng: &mut Rng) -> Policy {
    if let Ok(p) = std::env::var("VERIF_POLICY") {
        // Experiments only: "r<pm>" or "p<d>".
        let n: u64 = p[1..].parse().unwrap_or(100);
        return if p.starts_with('r') { Policy::Random(n) } else { Policy::Pct(n as u32, 400) };
    }
    match rng.below(4) {
        0 => Policy::Random(100),
        1 => Policy::Random(400),
        2 => Policy::Pct(1 + rng.below(3) as u32, 400),
        _ => Policy::Random(800),
    }
}

// ---------------------------------------------------------------------------
// C04: concurrent submitters on tiny queues, with the kernel consuming.

pub fn c04_schedule(seed: u64, index: u64, rep: &mut Report, free: bool) {
    let mut rng = Rng::derive(seed, 0xC04, index);
    let sq_size = *rng.pick(&[1u32, 2, 2, 4, 8]);
    let nsub = 2 + rng.below(3) as usize;
    let ops_per = 1 + rng.below(4) as u64;
    let start = match rng.below(4) {
        0 => 0u32,
        1 => 0u32.wrapping_sub(1 + rng.below(2 * u64::from(sq_size) + 2) as u32),
        2 => (1u32 << 31) - 1 - rng.below(3) as u32,
        _ => rng.next() as u32,
    };
    let sqpoll = rng.chance(1, 4);
    simk::reset(seed ^ index);
    alloc::CONSUMER_PHASE_HOLDS.store(false, Ordering::SeqCst);
    {
        let mut k = simk::k();
        k.knobs.sq_start = start;
        k.knobs.cq_start = rng.next() as u32;
        k.knobs.layout_seed = rng.next() | 1;
        if rng.chance(1, 3) {
            k.knobs.consume_limit = 1;
        }
        k.knobs.sqpoll_strict = true;
        k.knobs.sqpoll_yield_every = [1u32, 2, 3, 5, 9, 33][(index % 6) as usize];
        // The kernel completes a random subset of what is in flight at every entry.
        let mut krng = Rng::new(rng.next());
        let mut seen_offsets: std::collections::HashSet<u64> = std::collections::HashSet::new();
        let mut checked_upto = 0u64;
        k.on_enter = Some(Box::new(move |s, fd| {
            // Every read of this scenario has its own offset: the same offset
            // twice means the same submission was consumed twice.
            let mut dup = None;
            for r in s.reqs.values() {
                if r.id > checked_upto && r.sqe.opcode() == OP_READ && !seen_offsets.insert(r.sqe.off()) {
                    dup = Some(r.sqe.describe());
                }
            }
            checked_upto = s.next_req - 1;
            if let Some(d) = dup {
                s.violation("C04", "submission-duplicated", format!("the kernel consumed the same submission twice: {d}"));
                s.broken = true;
                sched::ABORT.store(true, Ordering::SeqCst);
                return;
            }
            let ids = s.inflight_of(fd);
            for id in ids {
                if krng.chance(2, 3) {
                    let off = s.req(id).sqe.off();
                    effects::complete(s, id, 1 + (off % 60) as i32, false);
                }
            }
        }));
    }
    let mut cfg = Ring::config().with_submission_queue_size(sq_size).with_completion_queue_size((sq_size * 2).max(64));
    if sqpoll {
        cfg = cfg.with_kernel_thread();
    }
    let mut ring = alloc::a10(|| cfg.build()).expect("ring");
    let sq = ring.sq();
    let ring_fd = simk::k().only_ring_fd();
    let raw = fds::issue("world-fd");
    let afd_ptr: *mut AsyncFd = Box::into_raw(Box::new(unsafe { AsyncFd::from_raw_fd(raw, sq.clone()) }));
    let afd: &'static AsyncFd = unsafe { &*afd_ptr };
    let shared = Arc::new(Shared::default());
    let total_ops = nsub as u64 * ops_per;
    let mut threads: Vec<Box<dyn FnOnce() + Send>> = Vec::new();
    // Ring thread.
    {
        let shared = shared.clone();
        threads.push(Box::new(move || {
            let mut polls = 0u64;
            let mut idle = 0u64;
            loop {
                sched::point(sched::P_API);
                let _ = alloc::consumer(|| ring.poll(Some(Duration::ZERO)));
                polls += 1;
                if sched::aborted() {
                    std::mem::forget(ring);
                    return;
                }
                let done = shared.submitters_done.load(Ordering::SeqCst) == nsub;
                if done || polls > 50_000 {
                    break;
                }
                // Bounded progress: nothing queued, nothing in flight, nothing to
                // deliver, every other thread waits for a wake-up that only this
                // thread could cause, for many polls in a row.
                let quiet = {
                    let mut k = simk::k();
                    let fd = k.only_ring_fd();
                    k.inflight_of(fd).is_empty() && simk::enter::peek_sq(&mut k, fd).is_empty() && simk::enter::cq_ready(&mut k, fd) == 0
                };
                if quiet && sched::others_all_blocked() {
                    idle += 1;
                    if idle > 64 {
                        shared.violation("C03", "lost-wakeup:mt", format!("after {idle} further Ring::poll calls with an empty queue and nothing in flight, submitter threads are still waiting to be woken"));
                        sched::ABORT.store(true, Ordering::SeqCst);
                        std::mem::forget(ring);
                        return;
                    }
                } else {
                    idle = 0;
                }
                sched::yield_now();
            }
            alloc::consumer(|| drop(ring));
        }));
    }
    for t in 0..nsub {
        let shared = shared.clone();
        threads.push(Box::new(move || {
            for j in 0..ops_per {
                let opid = 1000 + (t as u64) * 100 + j;
                let mut op = alloc::a10(|| fut_op(afd.read(Vec::with_capacity(64)).from(opid), |r: std::io::Result<Vec<u8>>| match r {
                    Ok(v) => Outcome::ok(v.len() as i64),
                    Err(e) => Outcome::err(&e),
                }));
                match drive(&mut op, 20_000) {
                    Some(o) => {
                        let want = 1 + (opid % 60) as i64;
                        if o.res != Ok(want) {
                            shared.violation("C04", "wrong-result-for-submission", format!("read at offset {opid} resolved with {}, the kernel completed that submission with {want}", o.brief()));
                        }
                        shared.resolved.fetch_add(1, Ordering::SeqCst);
                    }
                    None => {
                        shared.gave_up.fetch_add(1, Ordering::SeqCst);
                    }
                }
                if sched::aborted() {
                    std::mem::forget(op);
                    break;
                }
                alloc::a10(|| drop(op));
            }
            shared.submitters_done.fetch_add(1, Ordering::SeqCst);
        }));
    }
    if sqpoll {
        let shared = shared.clone();
        threads.push(Box::new(move || {
            // The kernel's submission thread: consumes whenever it gets to run.
            let mut n = 0;
            while shared.submitters_done.load(Ordering::SeqCst) < nsub && n < 100_000 && !sched::aborted() {
                sched::point(sched::P_KTHREAD);
                {
                    let mut k = simk::k();
                    simk::enter::sqpoll_run(&mut k);
                }
                simk::enter::kernel_tick();
                n += 1;
                sched::yield_now();
            }
        }));
    }
    let policy = policy_for(&mut rng);
    let stats = if free {
        sched::run_free(threads, rng.next());
        free_stats()
    } else {
        install_stall_hook("c04", seed, index);
        sched::run(threads, rng.next(), policy, 400_000)
    };
    // Oracle: every submission reached the kernel exactly once, unmodified.
    {
        let k = simk::k();
        let mut seen: std::collections::HashMap<u64, u32> = std::collections::HashMap::new();
        for r in k.reqs.values() {
            if r.sqe.opcode() == OP_READ {
                *seen.entry(r.sqe.off()).or_insert(0) += 1;
                if r.sqe.len() != 64 || r.sqe.fd() != raw {
                    shared.violation("C04", "submission-modified", format!("kernel saw {}", r.sqe.describe()));
                }
            }
        }
        for t in 0..nsub as u64 {
            for j in 0..ops_per {
                let opid = 1000 + t * 100 + j;
                match seen.get(&opid).copied().unwrap_or(0) {
                    1 => {}
                    0 => {
                        if !stats.budget_exhausted && !sched::aborted() {
                            shared.violation("C04", "submission-lost", format!("read at offset {opid} was accepted by the queue but never reached the kernel"));
                        }
                    }
                    n => shared.violation("C04", "submission-duplicated", format!("read at offset {opid} reached the kernel {n} times")),
                }
            }
        }
    }
    alloc::CONSUMER_PHASE_HOLDS.store(true, Ordering::SeqCst);
    let aborted = sched::aborted();
    let gave_up = shared.gave_up.load(Ordering::SeqCst);
    if gave_up > 0 && !stats.budget_exhausted && !aborted {
        shared.violation("C03", "op-never-resolves:mt", format!("{gave_up} of {total_ops} reads never resolved although the ring thread kept polling"));
    }
    if stats.budget_exhausted {
        rep.count("schedules_budget_exhausted", 1);
    }
    rep.count("sched_steps", stats.steps);
    rep.count("sched_switches", stats.switches);
    rep.count("sched_lock_blocks", stats.lock_blocks);
    rep.count("ops_resolved", shared.resolved.load(Ordering::SeqCst));
    rep.cell(format!("sq={sq_size}"));
    rep.cell(format!("submitters={nsub}"));
    rep.cell(format!("sqpoll={sqpoll}"));
    rep.cell(if start == 0 { "start=0" } else if start > 0xffff_0000 { "start=near-2^32" } else if (start >> 30) == 1 { "start=near-2^31" } else { "start=random" });
    if aborted {
        std::mem::forget(sq);
    } else {
        unsafe { drop(Box::from_raw(afd_ptr)) };
        drop(sq);
    }
    simk::k().sync_fd_events();
    let sig = fnv(stats.trace_hash, &[sq_size as u8, nsub as u8, ops_per as u8]);
    let _ = ring_fd;
    let sig = if free { fnv(index, &[sq_size as u8, nsub as u8, 0xF4]) } else { sig };
    finish(rep, if free { "c04free" } else { "c04" }, seed, index, &shared, sig, free || stats.switches >= 2, format!("sq={sq_size} submitters={nsub} ops/thread={ops_per} start={start:#x} sqpoll={sqpoll} steps={} switches={} resolved={}", stats.steps, stats.switches, shared.resolved.load(Ordering::SeqCst)));
}

/// C04 single-threaded wrap sweep: all start values x sizes.
pub fn c04_wrap_sweep(seed: u64, rep: &mut Report) {
    alloc::CONSUMER_PHASE_HOLDS.store(false, Ordering::SeqCst);
    for sq_size in [1u32, 2, 4, 8, 16, 64, 1024, 4096] {
        let mut starts: Vec<u32> = vec![0, (1 << 31) - 2, (1 << 31) - 1, 1 << 31];
        if sq_size <= 8 {
            for k in 0..=(2 * sq_size + 1) {
                starts.push(0u32.wrapping_sub(k));
            }
        } else {
            // Large queues: the boundary cases only.
            for k in [0, 1, 2, sq_size - 1, sq_size, sq_size + 1, 2 * sq_size - 1, 2 * sq_size, 2 * sq_size + 1, 3 * sq_size] {
                starts.push(0u32.wrapping_sub(k));
            }
        }
        for start in starts {
            simk::reset(seed ^ u64::from(start));
            {
                let mut k = simk::k();
                k.knobs.sq_start = start;
                k.knobs.cq_start = start.wrapping_mul(3);
            }
            let mut ring = alloc::a10(|| Ring::config().with_submission_queue_size(sq_size).build()).expect("ring");
            let sq = ring.sq();
            let raw = fds::issue("world-fd");
            let afd = unsafe { AsyncFd::from_raw_fd(raw, sq.clone()) };
            let shared = Shared::default();
            let n_ops = 3 * sq_size as u64 + 3;
            let mut ops: Vec<(u64, Box<dyn DynOp>)> = Vec::new();
            let fdref: &'static AsyncFd = unsafe { &*std::ptr::from_ref(&afd) };
            for i in 0..n_ops {
                ops.push((i, alloc::a10(|| fut_op(fdref.read(Vec::with_capacity(64)).from(5000 + i), |r: std::io::Result<Vec<u8>>| match r {
                    Ok(v) => Outcome::ok(v.len() as i64),
                    Err(e) => Outcome::err(&e),
                }))));
            }
            let (waker, ws) = new_waker();
            let mut cx = Context::from_waker(&waker);
            let mut resolved = 0;
            let mut rounds = 0;
            while !ops.is_empty() && rounds < 200 {
                rounds += 1;
                let mut i = 0;
                while i < ops.len() {
                    match alloc::a10(|| ops[i].1.poll(&mut cx)) {
                        Poll::Ready(o) => {
                            let opid = 5000 + ops[i].0;
                            let want = 1 + (opid % 60) as i64;
                            if o.res != Ok(want) {
                                shared.violation("C04", "wrong-result-for-submission", format!("start {start:#x} size {sq_size}: read {opid} resolved with {}", o.brief()));
                            }
                            resolved += 1;
                            let op = ops.remove(i);
                            alloc::a10(|| drop(op));
                        }
                        Poll::Pending => i += 1,
                    }
                }
                let _ = alloc::consumer(|| ring.poll(Some(Duration::ZERO)));
                let ids = simk::k().inflight();
                for id in ids {
                    let mut k = simk::k();
                    let off = k.req(id).sqe.off();
                    effects::complete(&mut k, id, 1 + (off % 60) as i32, false);
                }
                let _ = alloc::consumer(|| ring.poll(Some(Duration::ZERO)));
            }
            let _ = ws;
            if resolved != n_ops {
                shared.violation("C04", "wrap:ops-not-completed", format!("counters started at {start:#x}, queue size {sq_size}: only {resolved} of {n_ops} reads completed after {rounds} rounds"));
            }
            alloc::a10(|| drop(ops));
            alloc::a10(|| drop(afd));
            alloc::consumer(|| drop(ring));
            drop(sq);
            simk::k().sync_fd_events();
            rep.cell(format!("wrap-sweep:size={sq_size}"));
            let sig = fnv(u64::from(start), &[sq_size as u8, (sq_size >> 8) as u8, 0x5e]);
            finish(rep, "c04", seed, u64::from(start), &shared, sig, true, format!("wrap-sweep sq={sq_size} start={start:#x} ops={n_ops} resolved={resolved}"));
        }
    }
}

// ---------------------------------------------------------------------------
// C08: buffer pool, 16-bit tail wrap marathon (single thread).

pub fn c08_wrap_marathon(seed: u64, index: u64, cycles: u64, rep: &mut Report) {
    use a10::io::{ReadBuf, ReadBufPool};
    let mut rng = Rng::derive(seed, 0xC08A, index);
    let pool_size = *rng.pick(&[1u16, 2, 4]);
    simk::reset(seed ^ index);
    alloc::CONSUMER_PHASE_HOLDS.store(false, Ordering::SeqCst);
    let mut ring = alloc::a10(|| Ring::config().with_submission_queue_size(4).build()).expect("ring");
    let sq = ring.sq();
    let ring_fd = simk::k().only_ring_fd();
    let raw = fds::issue("world-fd");
    let afd = unsafe { AsyncFd::from_raw_fd(raw, sq.clone()) };
    let fdref: &'static AsyncFd = unsafe { &*std::ptr::from_ref(&afd) };
    let pool = alloc::a10(|| ReadBufPool::new(sq.clone(), pool_size, 8)).expect("pool");
    let shared = Shared::default();
    let (waker, _ws) = new_waker();
    let mut cx = Context::from_waker(&waker);
    let mut held: std::collections::VecDeque<(ReadBuf, Vec<u8>)> = std::collections::VecDeque::new();
    let mut done = 0u64;
    'outer: for i in 0..cycles {
        let mut op = alloc::a10(|| fut_op(fdref.read(pool.get()), |r: std::io::Result<ReadBuf>| match r {
            Ok(b) => {
                let mut o = Outcome::ok(b.len() as i64);
                o.rbufs.push(b);
                o
            }
            Err(e) => Outcome::err(&e),
        }));
        let _ = alloc::a10(|| op.poll(&mut cx));
        let _ = alloc::consumer(|| ring.poll(Some(Duration::ZERO)));
        let ids = simk::k().inflight_of(ring_fd);
        let Some(id) = ids.last().copied() else {
            shared.violation("C08", "marathon:read-not-submitted", format!("cycle {i}: pool read did not reach the kernel"));
            break;
        };
        let n = 1 + (i % 8) as i32;
        {
            let mut k = simk::k();
            effects::complete(&mut k, id, n, false);
        }
        let _ = alloc::consumer(|| ring.poll(Some(Duration::ZERO)));
        match alloc::a10(|| op.poll(&mut cx)) {
            Poll::Ready(mut o) => match o.res {
                Ok(len) => {
                    let b = o.rbufs.pop().unwrap();
                    let produced = simk::k().req(id).produced.last().cloned().unwrap_or_default();
                    if len != i64::from(n) || b.as_slice() != &produced[..] {
                        shared.violation("C08", "marathon:wrong-data", format!("cycle {i}: buffer holds {len} bytes, kernel wrote {}", produced.len()));
                        break 'outer;
                    }
                    held.push_back((b, produced));
                }
                Err(e) => {
                    shared.violation("C08", "marathon:read-failed", format!("cycle {i} (pool of {pool_size}, {} buffers held): read failed with errno {e}", held.len()));
                    break 'outer;
                }
            },
            Poll::Pending => {
                shared.violation("C08", "marathon:read-pending", format!("cycle {i}: read did not resolve"));
                break;
            }
        }
        alloc::a10(|| drop(op));
        // Keep up to pool_size - 1 buffers alive, check the oldest before giving it back.
        while held.len() as u16 >= pool_size {
            let (b, want) = held.pop_front().unwrap();
            if b.as_slice() != &want[..] {
                shared.violation("C08", "pool-buffer-overwritten-while-owned", format!("cycle {i}: a held ReadBuf changed"));
                break 'outer;
            }
            alloc::a10(|| drop(b));
        }
        done += 1;
        // Keep the request table small.
        if i % 4096 == 0 {
            simk::k().reqs.retain(|_, r| r.state != ReqState::Done);
        }
    }
    let khead = {
        let k = simk::k();
        k.rings[&ring_fd].pbufs.values().next().map(|p| p.khead).unwrap_or(0)
    };
    alloc::a10(|| drop(held));
    alloc::a10(|| drop(pool));
    alloc::a10(|| drop(afd));
    alloc::consumer(|| drop(ring));
    drop(sq);
    simk::k().sync_fd_events();
    alloc::CONSUMER_PHASE_HOLDS.store(true, Ordering::SeqCst);
    rep.count("marathon_cycles", done);
    rep.count("marathon_tail_wraps", done / 65536);
    rep.cell(format!("marathon:pool={pool_size}"));
    let _ = khead;
    let sig = fnv(index, &[pool_size as u8, 0xAA]);
    finish(rep, "c08wrap", seed, index, &shared, sig, done > 65536, format!("marathon pool={pool_size} cycles={done} tail-wraps={}", done / 65536));
}

// ---------------------------------------------------------------------------
// C08: concurrent releases from several threads with the kernel looking at the
// buffer ring at every scheduling point.

pub fn c08_release_schedule(seed: u64, index: u64, rep: &mut Report, free: bool) {
    use a10::io::{ReadBuf, ReadBufPool};
    let mut rng = Rng::derive(seed, 0xC08B, index);
    let pool_size = *rng.pick(&[1u16, 2, 4, 8]);
    let rounds = 1 + rng.below(3);
    simk::reset(seed ^ index);
    alloc::CONSUMER_PHASE_HOLDS.store(false, Ordering::SeqCst);
    let mut ring = alloc::a10(|| Ring::config().with_submission_queue_size(8).build()).expect("ring");
    let sq = ring.sq();
    let ring_fd = simk::k().only_ring_fd();
    let raw = fds::issue("world-fd");
    let afd = unsafe { AsyncFd::from_raw_fd(raw, sq.clone()) };
    let fdref: &'static AsyncFd = unsafe { &*std::ptr::from_ref(&afd) };
    let pool = alloc::a10(|| ReadBufPool::new(sq.clone(), pool_size, 16)).expect("pool");
    let shared = Arc::new(Shared::default());
    let (waker, _ws) = new_waker();
    let mut total_switches = 0;
    let mut trace_hash = 0;
    // Pre-cycle the ring a random number of times so that slot 0 is reused.
    let pre = rng.below(2 * u64::from(pool_size) + 1);
    for round in 0..(rounds + pre) {
        let mut cx = Context::from_waker(&waker);
        // Fill: take every buffer of the pool.
        let mut bufs: Vec<ReadBuf> = Vec::new();
        for _ in 0..pool_size {
            let mut op = alloc::a10(|| fut_op(fdref.read(pool.get()), |r: std::io::Result<ReadBuf>| match r {
                Ok(b) => {
                    let mut o = Outcome::ok(b.len() as i64);
                    o.rbufs.push(b);
                    o
                }
                Err(e) => Outcome::err(&e),
            }));
            let _ = alloc::a10(|| op.poll(&mut cx));
            let _ = alloc::consumer(|| ring.poll(Some(Duration::ZERO)));
            let id = simk::k().inflight_of(ring_fd).last().copied();
            if let Some(id) = id {
                let mut k = simk::k();
                effects::complete(&mut k, id, 9, false);
            }
            let _ = alloc::consumer(|| ring.poll(Some(Duration::ZERO)));
            if let Poll::Ready(mut o) = alloc::a10(|| op.poll(&mut cx)) {
                match o.rbufs.pop() {
                    Some(b) => bufs.push(b),
                    None => shared.violation("C08", "pool-exhausted-unexpectedly", format!("round {round}: read {} of {pool_size} failed with {}", bufs.len(), o.brief())),
                }
            }
            alloc::a10(|| drop(op));
        }
        if round < pre {
            // Sequential release.
            alloc::a10(|| drop(bufs));
            continue;
        }
        // Concurrent release, the kernel auditing the ring whenever it runs.
        let nthreads = (2 + rng.below(3) as usize).min(bufs.len().max(1));
        let mut per: Vec<Vec<ReadBuf>> = (0..nthreads).map(|_| Vec::new()).collect();
        for (i, b) in bufs.into_iter().enumerate() {
            per[i % nthreads].push(b);
        }
        let done = Arc::new(AtomicUsize::new(0));
        let mut threads: Vec<Box<dyn FnOnce() + Send>> = Vec::new();
        for mine in per {
            let done = done.clone();
            threads.push(Box::new(move || {
                for b in mine {
                    sched::point(sched::P_API);
                    alloc::a10(|| drop(b));
                }
                done.fetch_add(1, Ordering::SeqCst);
            }));
        }
        {
            let done = done.clone();
            threads.push(Box::new(move || {
                let mut n = 0;
                while done.load(Ordering::SeqCst) < nthreads && n < 10_000 {
                    sched::point(sched::P_KTHREAD);
                    {
                        let mut k = simk::k();
                        let fd = k.only_ring_fd();
                        let groups: Vec<u16> = k.rings[&fd].pbufs.keys().copied().collect();
                        for g in groups {
                            effects::pbuf_audit(&mut k, fd, g);
                        }
                    }
                    n += 1;
                    sched::yield_now();
                }
            }));
        }
        let policy = policy_for(&mut rng);
        let stats = if free {
            sched::run_free(threads, rng.next());
            free_stats()
        } else {
            install_stall_hook("c08mt", seed, index);
            sched::run(threads, rng.next(), policy, 200_000)
        };
        total_switches += stats.switches;
        trace_hash = fnv(trace_hash ^ stats.trace_hash, &[round as u8]);
        // All buffers must be the kernel's again.
        {
            let mut k = simk::k();
            let groups: Vec<u16> = k.rings[&ring_fd].pbufs.keys().copied().collect();
            for g in groups {
                effects::pbuf_audit(&mut k, ring_fd, g);
                let lost = k.rings[&ring_fd].pbufs[&g].handed_out.len();
                if lost != 0 {
                    drop(k);
                    shared.violation("C08", "pool-buffer-lost:concurrent-release", format!("round {round}: {lost} of {pool_size} buffers did not return to the kernel after concurrent release from {nthreads} threads"));
                    break;
                }
            }
        }
    }
    alloc::a10(|| drop(pool));
    alloc::a10(|| drop(afd));
    alloc::consumer(|| drop(ring));
    drop(sq);
    simk::k().sync_fd_events();
    alloc::CONSUMER_PHASE_HOLDS.store(true, Ordering::SeqCst);
    rep.cell(format!("release:pool={pool_size}"));
    rep.count("sched_switches", total_switches);
    let sig = fnv(trace_hash, &[pool_size as u8, rounds as u8, pre as u8]);
    let sig = if free { fnv(index, &[pool_size as u8, 0xF8]) } else { sig };
    finish(rep, if free { "c08free" } else { "c08mt" }, seed, index, &shared, sig, free || total_switches >= 2, format!("concurrent-release pool={pool_size} rounds={rounds} pre-cycles={pre} switches={total_switches}"));
}

// ---------------------------------------------------------------------------
// C11: SubmissionQueue::wake never loses a wake-up.

pub fn c11_schedule(seed: u64, index: u64, rep: &mut Report, free: bool) {
    let mut rng = Rng::derive(seed, 0xC11, index);
    let ring_type = *rng.pick(&["default", "default", "kernel-thread", "single-issuer"]);
    let family = *rng.pick(&["S1-concurrent", "S1-concurrent", "S2-wake-before-poll", "S3-poll-loop"]);
    let nwakers = 1 + rng.below(3) as usize;
    let sq_size = *rng.pick(&[1u32, 2, 8]);
    let fill_queue = ring_type != "single-issuer" && rng.chance(1, 3);
    // S4: the first poll finds completions ready (it never blocks) and the wake() calls are made
    // once that poll is running: the *next* poll has to return.
    let busy = index % 5 == 4;
    let family = if busy { "S4-wake-during-busy-poll" } else { family };
    let fill_queue = fill_queue && !busy;
    simk::reset(seed ^ index);
    alloc::CONSUMER_PHASE_HOLDS.store(false, Ordering::SeqCst);
    {
        let mut k = simk::k();
        k.knobs.layout_seed = rng.next() | 1;
        k.knobs.sq_start = if rng.chance(1, 3) { 0u32.wrapping_sub(rng.below(4) as u32) } else { 0 };
        k.knobs.sqpoll_strict = true;
        k.knobs.sqpoll_yield_every = [1u32, 2, 3, 5, 9, 33][(index % 6) as usize];
    }
    let mut cfg = Ring::config().with_submission_queue_size(sq_size);
    match ring_type {
        "kernel-thread" => cfg = cfg.with_kernel_thread(),
        "single-issuer" => cfg = cfg.single_issuer(),
        _ => {}
    }
    let mut ring = alloc::a10(|| cfg.build()).expect("ring");
    let sq = ring.sq();
    let ring_fd = simk::k().only_ring_fd();
    let shared = Arc::new(Shared::default());
    let raw = fds::issue("world-fd");
    let afd_ptr: *mut AsyncFd = Box::into_raw(Box::new(unsafe { AsyncFd::from_raw_fd(raw, sq.clone()) }));
    let afd: &'static AsyncFd = unsafe { &*afd_ptr };
    // Optionally fill the submission queue with submissions nobody entered yet,
    // so that the wake-up message has to wait for room.
    let mut parked: Vec<Box<dyn DynOp>> = Vec::new();
    if fill_queue {
        let (waker, _) = new_waker();
        let mut cx = Context::from_waker(&waker);
        for j in 0..sq_size {
            let mut op = alloc::a10(|| fut_op(afd.read(Vec::with_capacity(8)).from(900 + u64::from(j)), |r: std::io::Result<Vec<u8>>| match r {
                Ok(v) => Outcome::ok(v.len() as i64),
                Err(e) => Outcome::err(&e),
            }));
            let _ = alloc::a10(|| op.poll(&mut cx));
            parked.push(op);
        }
    }
    if busy {
        let (waker, _) = new_waker();
        let mut cx = Context::from_waker(&waker);
        for j in 0..1 + (index / 5) % 2 {
            let mut op = alloc::a10(|| fut_op(afd.read(Vec::with_capacity(8)).from(700 + j), |r: std::io::Result<Vec<u8>>| match r {
                Ok(v) => Outcome::ok(v.len() as i64),
                Err(e) => Outcome::err(&e),
            }));
            let _ = alloc::a10(|| op.poll(&mut cx));
            parked.push(op);
        }
        // Hand them to the kernel and let it complete them: the completions wait in the queue.
        let _ = alloc::consumer(|| ring.poll(Some(Duration::ZERO)));
        let mut k = simk::k();
        for id in k.inflight_of(ring_fd) {
            effects::complete(&mut k, id, 3, false);
        }
    }
    sched::mark_reset();
    let polls_wanted: u64 = if busy { 2 } else if family == "S3-poll-loop" { 2 + rng.below(3) } else { 1 };
    let polls_done = Arc::new(AtomicU64::new(0));
    let users_done = Arc::new(AtomicUsize::new(0));
    let mut n_users = 1;
    if family == "S2-wake-before-poll" {
        for _ in 0..nwakers {
            let s = sq.clone();
            alloc::a10(|| s.wake());
        }
    }
    let mut threads: Vec<Box<dyn FnOnce() + Send>> = Vec::new();
    {
        let polls_done = polls_done.clone();
        let users_done_ring = users_done.clone();
        threads.push(Box::new(move || {
            for p in 0..polls_wanted {
                sched::point(sched::P_API);
                sched::mark_thread(busy && p == 0);
                let _ = alloc::consumer(|| ring.poll(None));
                sched::mark_thread(false);
                polls_done.fetch_add(1, Ordering::SeqCst);
            }
            // Completions for the parked operations are irrelevant here.
            alloc::consumer(|| drop(ring));
            users_done_ring.fetch_add(1, Ordering::SeqCst);
        }));
    }
    if family != "S2-wake-before-poll" {
        for w in 0..nwakers {
            let s = sq.clone();
            let polls_done = polls_done.clone();
            let users_done = users_done.clone();
            n_users += 1;
            threads.push(Box::new(move || {
                if busy {
                    // Only once the first poll is really running (or over).
                    let pd = polls_done.clone();
                    let _ = sched::wait_until(move || sched::mark_seen() || pd.load(Ordering::SeqCst) >= 1);
                }
                let my_wakes: Vec<u64> = if family == "S3-poll-loop" {
                    // Wake i+1 is only issued after poll i returned.
                    (0..polls_wanted).filter(|i| (*i as usize) % nwakers == w).collect()
                } else {
                    vec![0]
                };
                for i in my_wakes {
                    if family == "S3-poll-loop" {
                        let pd = polls_done.clone();
                        if !sched::wait_until(move || pd.load(Ordering::SeqCst) >= i) {
                            break;
                        }
                    }
                    sched::point(sched::P_API);
                    alloc::a10(|| s.wake());
                }
                users_done.fetch_add(1, Ordering::SeqCst);
            }));
        }
    }
    if ring_type == "kernel-thread" {
        let users_done = users_done.clone();
        threads.push(Box::new(move || {
            // The kernel's submission thread lives as long as the io_uring does.
            let mut n = 0;
            while users_done.load(Ordering::SeqCst) < n_users && n < 5_000_000 && !sched::aborted() {
                sched::point(sched::P_KTHREAD);
                {
                    let mut k = simk::k();
                    simk::enter::sqpoll_run(&mut k);
                }
                n += 1;
                sched::yield_now();
            }
        }));
    }
    let policy = policy_for(&mut rng);
    let stats = if free {
        sched::run_free(threads, rng.next());
        free_stats()
    } else {
        install_stall_hook(if free { "c11free" } else { "c11" }, seed, index);
        sched::run(threads, rng.next(), policy, 40_000)
    };
    // A poll that could never return is a lost wake-up.
    let kv = simk::k().take_violations();
    for v in kv {
        if v.prop == "BLOCK" && stats.budget_exhausted {
            // The schedule was cut off (step budget), nothing can be concluded.
            rep.count("c11_blocked_at_budget_exhaustion", 1);
        } else if v.prop == "BLOCK" {
            shared.violation("C11", format!("lost-wakeup:poll-blocked-forever:{family}:{ring_type}"), format!("Ring::poll(None) blocked in the kernel with nothing to deliver after every wake() call had returned ({nwakers} waker thread(s), queue full at wake: {fill_queue})"));
        } else {
            shared.violation(v.prop, v.sig, v.detail);
        }
    }
    if polls_done.load(Ordering::SeqCst) < polls_wanted && !stats.budget_exhausted {
        shared.violation("C11", format!("lost-wakeup:poll-never-returned:{family}:{ring_type}"), format!("{} of {polls_wanted} Ring::poll calls returned", polls_done.load(Ordering::SeqCst)));
    }
    // Waking after the ring is gone must be harmless.
    {
        let s = sq.clone();
        alloc::a10(|| s.wake());
        alloc::a10(|| s.wake());
        rep.cell("wake-after-ring-dropped");
    }
    for m in crate::mon::logsink::take() {
        if m.contains("failed to wake") {
            shared.violation("C11", format!("wake-failed:{ring_type}"), m);
        }
    }
    alloc::a10(|| drop(parked));
    unsafe { drop(Box::from_raw(afd_ptr)) };
    drop(sq);
    simk::k().sync_fd_events();
    alloc::CONSUMER_PHASE_HOLDS.store(true, Ordering::SeqCst);
    if stats.budget_exhausted {
        rep.count("schedules_budget_exhausted", 1);
    }
    rep.count("sched_switches", stats.switches);
    rep.count("sched_kernel_blocks", stats.kernel_blocks);
    rep.cell(format!("family:{family}"));
    rep.cell(format!("ring:{ring_type}"));
    rep.cell(format!("wakers:{nwakers}"));
    if fill_queue {
        rep.cell("queue-full-at-wake");
    }
    let _ = ring_fd;
    let sig = fnv(stats.trace_hash, format!("{family}{ring_type}{nwakers}{fill_queue}").as_bytes());
    let sig = if free { fnv(index, format!("{family}{ring_type}{nwakers}free").as_bytes()) } else { sig };
    finish(rep, if free { "c11free" } else { "c11" }, seed, index, &shared, sig, free || stats.switches >= 1 || family == "S2-wake-before-poll", format!("{family} ring={ring_type} wakers={nwakers} sq={sq_size} queue-full={fill_queue} polls={polls_wanted} switches={} kernel-blocks={}", stats.switches, stats.kernel_blocks));
}

/// A premature free shows up natively as a thread spinning for ever on a lock that lives in
/// freed (quarantined, poisoned) memory. Report what the monitors know when that happens.
pub fn install_stall_hook(scenario: &'static str, seed: u64, index: u64) {
    *sched::ON_STALL.lock().unwrap_or_else(|e| e.into_inner()) = Some(Box::new(move |lock_addr: usize| {
        // The lock the thread spins on lives in a block that was freed: a10 is using the
        // state of an operation after it released it.
        if let Some((start, size, live)) = alloc::block_of(lock_addr) {
            if !live {
                println!(
                    "{{\"t\":\"viol\",\"prop\":\"C06\",\"sig\":\"op-state-used-after-free:mt\",\"detail\":{},\"scenario\":{},\"seed\":{seed},\"index\":{index},\"trace\":[]}}",
                    crate::out::jstr(&format!("a thread spins forever on the lock at {lock_addr:#x}, which lies in a block of {size} bytes at {start:#x} that was already deallocated (the quarantine's poison pattern reads as a held lock): the state of an operation was released while a10 still processes it")),
                    crate::out::jstr(scenario)
                );
            }
        }
        for v in alloc::take_violations() {
            let (prop, sig) = match v.kind {
                alloc::V_FREE_WHILE_HELD => ("C01", format!("free-while-kernel-held:mt:{}", alloc::what::name(v.what))),
                alloc::V_DOUBLE_FREE => ("C06", "double-free:mt".to_string()),
                _ => ("C01", "write-after-free:mt".to_string()),
            };
            println!(
                "{{\"t\":\"viol\",\"prop\":{},\"sig\":{},\"detail\":{},\"scenario\":{},\"seed\":{seed},\"index\":{index},\"trace\":[]}}",
                crate::out::jstr(prop),
                crate::out::jstr(&sig),
                crate::out::jstr(&format!("{v:?} (reported when a thread stalled on a lock afterwards)")),
                crate::out::jstr(scenario)
            );
        }
    }));
}

// ---------------------------------------------------------------------------
// C06/C01: futures dropped on one thread while the ring thread consumes their
// completions.

pub fn c06_drop_schedule(seed: u64, index: u64, rep: &mut Report, free: bool) {
    let mut rng = Rng::derive(seed, 0xC06D, index);
    let nworkers = 1 + rng.below(3) as usize;
    let ops_per = 1 + rng.below(4) as u64;
    simk::reset(seed ^ index);
    alloc::CONSUMER_PHASE_HOLDS.store(false, Ordering::SeqCst);
    alloc::start_tracking();
    {
        let mut k = simk::k();
        k.knobs.layout_seed = rng.next() | 1;
        let mut krng = Rng::new(rng.next());
        // Completes a random subset at every entry, cancels always "win" or are too late at random.
        k.on_enter = Some(Box::new(move |s, fd| {
            for id in s.inflight_of(fd) {
                if krng.chance(1, 2) {
                    let off = s.req(id).sqe.off();
                    effects::complete(s, id, 1 + (off % 30) as i32, false);
                }
            }
        }));
        for _ in 0..16 {
            let o = match rng.below(3) {
                0 => simk::CancelOutcome::Cancelled,
                1 => simk::CancelOutcome::NotFound,
                _ => simk::CancelOutcome::Already,
            };
            k.knobs.cancel_outcomes.push_back(o);
        }
    }
    let mut ring = alloc::a10(|| Ring::config().with_submission_queue_size(*rng.pick(&[2u32, 4, 16])).build()).expect("ring");
    let sq = ring.sq();
    let raw = fds::issue("world-fd");
    let afd_ptr: *mut AsyncFd = Box::into_raw(Box::new(unsafe { AsyncFd::from_raw_fd(raw, sq.clone()) }));
    let afd: &'static AsyncFd = unsafe { &*afd_ptr };
    let shared = Arc::new(Shared::default());
    let workers_done = Arc::new(AtomicUsize::new(0));
    // Every third schedule the Ring is dropped while the workers still use their operations:
    // its final sync-cancel interrupts them, a worker that polls again re-issues the
    // operation, and the Ring's last kernel entries may still hand that to the kernel.
    let early_drop = index % 3 == 2;
    let early_after = 1 + (index / 3) % 4;
    let mut threads: Vec<Box<dyn FnOnce() + Send>> = Vec::new();
    {
        let workers_done = workers_done.clone();
        threads.push(Box::new(move || {
            let mut polls = 0;
            loop {
                if early_drop && polls >= early_after {
                    alloc::consumer(|| drop(ring));
                    return;
                }
                sched::point(sched::P_API);
                let _ = alloc::consumer(|| ring.poll(Some(Duration::ZERO)));
                polls += 1;
                if sched::aborted() {
                    std::mem::forget(ring);
                    return;
                }
                if workers_done.load(Ordering::SeqCst) == nworkers || polls > 20_000 {
                    break;
                }
                sched::yield_now();
            }
            // Let everything that is still running finish, then tear down.
            for _ in 0..4 {
                {
                    let mut k = simk::k();
                    let fd = k.only_ring_fd();
                    for id in k.inflight_of(fd) {
                        effects::complete(&mut k, id, -libc::ECANCELED, false);
                    }
                }
                let _ = alloc::consumer(|| ring.poll(Some(Duration::ZERO)));
            }
            alloc::consumer(|| drop(ring));
        }));
    }
    for t in 0..nworkers {
        let shared = shared.clone();
        let workers_done = workers_done.clone();
        let mut wrng = Rng::new(rng.next());
        threads.push(Box::new(move || {
            let (waker, _ws) = {
                let _g = MonGuard::new();
                new_waker()
            };
            for j in 0..ops_per {
                let opid = 3000 + (t as u64) * 100 + j;
                let mut op = alloc::a10(|| fut_op(afd.read(Vec::with_capacity(32)).from(opid), |r: std::io::Result<Vec<u8>>| match r {
                    Ok(v) => Outcome::ok(v.len() as i64),
                    Err(e) => Outcome::err(&e),
                }));
                let mut cx = Context::from_waker(&waker);
                sched::point(sched::P_API);
                let first = alloc::a10(|| op.poll(&mut cx));
                // Hang around for a while, maybe poll again, then drop it wherever it is.
                for _ in 0..wrng.below(4) {
                    sched::yield_now();
                }
                if first.is_pending() && (early_drop || wrng.chance(1, 3)) {
                    let again = alloc::a10(|| op.poll(&mut cx));
                    if early_drop && again.is_pending() {
                        for _ in 0..wrng.below(3) {
                            sched::yield_now();
                        }
                        let _ = alloc::a10(|| op.poll(&mut cx));
                    }
                }
                if sched::aborted() {
                    std::mem::forget(op);
                    break;
                }
                sched::point(sched::P_API);
                alloc::a10(|| drop(op));
                shared.resolved.fetch_add(1, Ordering::SeqCst);
            }
            drop(waker);
            workers_done.fetch_add(1, Ordering::SeqCst);
        }));
    }
    let policy = policy_for(&mut rng);
    install_stall_hook(if free { "c06free" } else { "c06mt" }, seed, index);
    let stats = if free {
        sched::run_free(threads, rng.next());
        free_stats()
    } else {
        sched::run(threads, rng.next(), policy, 200_000)
    };
    *sched::ON_STALL.lock().unwrap_or_else(|e| e.into_inner()) = None;
    let aborted = sched::aborted();
    if !aborted {
        unsafe { drop(Box::from_raw(afd_ptr)) };
        alloc::a10(|| drop(sq));
    } else {
        std::mem::forget(sq);
    }
    simk::k().sync_fd_events();
    // Exactly-once reclamation.
    for v in alloc::take_violations() {
        let (prop, sig) = match v.kind {
            alloc::V_FREE_WHILE_HELD => ("C01", format!("free-while-kernel-held:mt:{}", alloc::what::name(v.what))),
            alloc::V_DOUBLE_FREE => ("C06", "double-free:mt".to_string()),
            _ => ("C01", "write-after-free:mt".to_string()),
        };
        shared.violation(prop, sig, format!("{v:?}"));
    }
    let leaks = if aborted {
        alloc::force_stop_tracking();
        Vec::new()
    } else {
        alloc::end_tracking()
    };
    // With the Ring dropped early an operation re-issued afterwards can never complete: a10
    // keeps its state alive for good (which is what C01 asks for), so no leak verdict there.
    if !leaks.is_empty() && !stats.budget_exhausted && index > 0 && !early_drop {
        shared.violation("C06", "state-leak:mt", format!("{} block(s) allocated inside a10 (sizes {:?}) are still live after every future, the Ring and all handles were dropped: the state of an operation dropped while its completion was being processed on another thread was never reclaimed", leaks.len(), leaks.iter().map(|l| l.size).take(6).collect::<Vec<_>>()));
    }
    alloc::CONSUMER_PHASE_HOLDS.store(true, Ordering::SeqCst);
    rep.count("sched_switches", stats.switches);
    rep.count("ops_dropped", shared.resolved.load(Ordering::SeqCst));
    if stats.budget_exhausted {
        rep.count("schedules_budget_exhausted", 1);
    }
    rep.cell(format!("mt-drop:workers={nworkers}"));
    if early_drop {
        rep.cell("mt-drop:ring-dropped-early");
    }
    let sig = if free { fnv(index, &[nworkers as u8, ops_per as u8, 0xF6]) } else { fnv(stats.trace_hash, &[nworkers as u8, ops_per as u8]) };
    finish(rep, if free { "c06free" } else { "c06mt" }, seed, index, &shared, sig, free || stats.switches >= 2, format!("mt-drop workers={nworkers} ops/worker={ops_per} switches={}", stats.switches));
}
