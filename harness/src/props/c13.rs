//! C13: each operation equals its POSIX call.
//!
//! E6: the real kernel of the sandbox is the oracle. The a10 operation runs on
//! one fixture, the corresponding libc/std call on an identical twin, results
//! and resulting state are compared. Every file-descriptor operation runs on a
//! regular and on a direct descriptor.

use std::io::{Read as _, Write as _};
use std::os::fd::{AsRawFd, FromRawFd, IntoRawFd, OwnedFd};
use std::os::unix::fs::{FileExt, MetadataExt, PermissionsExt};
use std::path::{Path, PathBuf};

use a10::fd::Kind;
use a10::fs::OpenOptions;
use a10::AsyncFd;

use super::real::{Real, Scratch, Watchdog};
use crate::out::{Report, ViolationOut};
use crate::rng::{Rng, fnv};

struct Ctx<'a> {
    rep: &'a mut Report,
    seed: u64,
    index: u64,
    dir: PathBuf,
}

impl Ctx<'_> {
    fn fail(&mut self, sig: &str, detail: String) {
        self.rep.violation(ViolationOut { prop: "C13".into(), sig: sig.into(), detail, scenario: "c13".into(), seed: self.seed, index: self.index, trace: Vec::new() });
    }
    fn case(&mut self, class: &str, desc: String) {
        self.rep.cell(format!("op:{class}"));
        let sig = fnv(fnv(0, class.as_bytes()), desc.as_bytes());
        self.rep.history(sig, true, || format!("{class} {desc}"));
    }
}

fn errno_of<T>(r: &std::io::Result<T>) -> i32 {
    match r {
        Ok(_) => 0,
        Err(e) => e.raw_os_error().unwrap_or(-1),
    }
}

fn content(len: usize, tag: u8) -> Vec<u8> {
    (0..len).map(|i| (i as u8).wrapping_mul(7).wrapping_add(tag)).collect()
}

fn offsets(rng: &mut Rng) -> Option<u64> {
    match rng.below(7) {
        0 | 1 => None,
        2 => Some(0),
        3 => Some(rng.below(5000)),
        4 => Some((1u64 << 32) - 1),
        5 => Some((1u64 << 32) + 1),
        _ => Some(1u64 << 40),
    }
}

/// Open `path` for a10 as regular or direct descriptor.
fn open_a10(real: &mut Real, path: &Path, direct: bool) -> Result<Option<AsyncFd>, Watchdog> {
    let sq = real.sq();
    let opts = OpenOptions::new().read().write();
    let opts = if direct { opts.kind(Kind::Direct) } else { opts };
    Ok(real.block_on(opts.open(sq, path.to_path_buf()))?.ok())
}

fn read_window(f: &std::fs::File, at: u64, len: usize) -> Vec<u8> {
    let mut v = vec![0u8; len];
    let n = f.read_at(&mut v, at).unwrap_or(0);
    v.truncate(n);
    v
}

fn file_io(c: &mut Ctx<'_>, real: &mut Real, rng: &mut Rng) -> Result<(), Watchdog> {
    let direct = rng.chance(1, 2);
    let kind = if direct { "direct" } else { "regular" };
    let base_len = rng.below(9000) as usize;
    let base = content(base_len, 3);
    let (pa, pb) = (c.dir.join(format!("fa{}", c.index)), c.dir.join(format!("fb{}", c.index)));
    std::fs::write(&pa, &base).unwrap();
    std::fs::write(&pb, &base).unwrap();
    let Some(afd) = open_a10(real, &pa, direct)? else {
        c.fail("open-failed", format!("could not open fixture as {kind} descriptor"));
        return Ok(());
    };
    let twin = std::fs::OpenOptions::new().read(true).write(true).open(&pb).unwrap();
    let mut twin_cursor: u64 = 0;
    for step in 0..(1 + rng.below(5)) {
        let off = offsets(rng);
        let len = match rng.below(6) {
            0 => 0,
            1 => 1,
            2 => 4096,
            3 => 1 + rng.below(70000) as usize,
            _ => 1 + rng.below(300) as usize,
        };
        match rng.below(6) {
            0 | 1 => {
                // write / pwrite
                let data = content(len, 11 + step as u8);
                let f = afd.write(data.clone());
                let f = if let Some(o) = off { f.at(o) } else { f };
                let got = real.block_on(f)?;
                let want = match off {
                    Some(o) => twin.write_at(&data, o),
                    None => {
                        let r = twin.write_at(&data, twin_cursor);
                        if let Ok(n) = r {
                            twin_cursor += n as u64;
                        }
                        r
                    }
                };
                if got.as_ref().ok() != want.as_ref().ok() || errno_of(&got) != errno_of(&want) {
                    c.fail(&format!("write-result:{kind}"), format!("write of {len} bytes at {off:?}: a10 {got:?}, write(2)/pwrite(2) {want:?}"));
                }
                c.case(&format!("write:{kind}"), format!("len={len} off={off:?}"));
            }
            2 => {
                // read / pread
                let f = afd.read(Vec::with_capacity(len));
                let f = if let Some(o) = off { f.from(o) } else { f };
                let got = real.block_on(f)?;
                let mut buf = vec![0u8; len];
                let want = match off {
                    Some(o) => twin.read_at(&mut buf, o),
                    None => {
                        let r = twin.read_at(&mut buf, twin_cursor);
                        if let Ok(n) = r {
                            twin_cursor += n as u64;
                        }
                        r
                    }
                };
                match (&got, &want) {
                    (Ok(g), Ok(n)) if g.len() == *n && g[..] == buf[..*n] => {}
                    (Err(a), Err(b)) if a.raw_os_error() == b.raw_os_error() => {}
                    _ => c.fail(&format!("read-result:{kind}"), format!("read of {len} bytes at {off:?}: a10 {:?}, read(2)/pread(2) {:?}", got.as_ref().map(Vec::len), want)),
                }
                c.case(&format!("read:{kind}"), format!("len={len} off={off:?}"));
            }
            3 => {
                // writev / pwritev with 3 buffers (one possibly empty)
                let a = content(rng.below(40) as usize, 1);
                let b = content(len.min(5000), 2);
                let d = content(rng.below(3) as usize, 3);
                let f = afd.write_vectored([a.clone(), b.clone(), d.clone()]);
                let f = if let Some(o) = off { f.at(o) } else { f };
                let got = real.block_on(f)?;
                let all: Vec<u8> = [a, b, d].concat();
                let at = off.unwrap_or(twin_cursor);
                let want = twin.write_at(&all, at);
                if off.is_none() {
                    if let Ok(n) = want {
                        twin_cursor += n as u64;
                    }
                }
                if got.as_ref().ok() != want.as_ref().ok() || errno_of(&got) != errno_of(&want) {
                    c.fail(&format!("writev-result:{kind}"), format!("vectored write of {} bytes at {off:?}: a10 {got:?}, pwritev {want:?}", all.len()));
                }
                c.case(&format!("write_vectored:{kind}"), format!("len={} off={off:?}", all.len()));
            }
            4 => {
                // readv
                let f = afd.read_vectored([Vec::with_capacity(7), Vec::with_capacity(len.min(4000)), Vec::with_capacity(13)]);
                let f = if let Some(o) = off { f.from(o) } else { f };
                let got = real.block_on(f)?;
                let total = 7 + len.min(4000) + 13;
                let mut buf = vec![0u8; total];
                let at = off.unwrap_or(twin_cursor);
                let want = twin.read_at(&mut buf, at);
                if off.is_none() {
                    if let Ok(n) = want {
                        twin_cursor += n as u64;
                    }
                }
                match (&got, &want) {
                    (Ok(g), Ok(n)) => {
                        let all: Vec<u8> = g.iter().flat_map(|b| b.iter().copied()).collect();
                        if all.len() != *n || all[..] != buf[..*n] || (g[0].len() < 7 && !g[1].is_empty()) {
                            c.fail(&format!("readv-result:{kind}"), format!("vectored read at {off:?}: a10 {} bytes {:?}, preadv {n}", all.len(), g.iter().map(Vec::len).collect::<Vec<_>>()));
                        }
                    }
                    (Err(a), Err(b)) if a.raw_os_error() == b.raw_os_error() => {}
                    _ => c.fail(&format!("readv-result:{kind}"), format!("vectored read at {off:?}: a10 {:?}, preadv {want:?}", got.as_ref().map(|g| g.iter().map(Vec::len).sum::<usize>()))),
                }
                c.case(&format!("read_vectored:{kind}"), format!("off={off:?}"));
            }
            _ => {
                // truncate / allocate / sync / advise
                match rng.below(4) {
                    0 => {
                        let l = rng.below(20000);
                        let got = real.block_on(afd.truncate(l))?;
                        let want = twin.set_len(l);
                        if errno_of(&got) != errno_of(&want) {
                            c.fail(&format!("truncate-result:{kind}"), format!("truncate({l}): a10 {got:?}, ftruncate {want:?}"));
                        }
                        c.case(&format!("truncate:{kind}"), format!("len={l}"));
                    }
                    1 => {
                        let (o, l) = (rng.below(30000), 1 + rng.below(30000) as u32);
                        let keep = rng.chance(1, 2);
                        let f = afd.allocate(o, l);
                        let f = if keep { f.mode(a10::fs::AllocateMode::KEEP_SIZE) } else { f };
                        let got = real.block_on(f)?;
                        let r = unsafe { libc::fallocate(twin.as_raw_fd(), if keep { libc::FALLOC_FL_KEEP_SIZE } else { 0 }, o as i64, i64::from(l)) };
                        let want: std::io::Result<()> = if r == 0 { Ok(()) } else { Err(std::io::Error::last_os_error()) };
                        if errno_of(&got) != errno_of(&want) {
                            c.fail(&format!("allocate-result:{kind}"), format!("allocate({o},{l},keep={keep}): a10 {got:?}, fallocate {want:?}"));
                        }
                        c.case(&format!("allocate:{kind}"), format!("off={o} len={l} keep={keep}"));
                    }
                    2 => {
                        let got = if rng.chance(1, 2) { real.block_on(afd.sync_all())? } else { real.block_on(afd.sync_data())? };
                        if got.is_err() {
                            c.fail(&format!("sync-result:{kind}"), format!("{got:?}"));
                        }
                        c.case(&format!("sync:{kind}"), String::new());
                    }
                    _ => {
                        let got = real.block_on(afd.advise(rng.below(1000), 1 + rng.below(8000) as u32, a10::fs::AdviseFlag::SEQUENTIAL))?;
                        if got.is_err() {
                            c.fail(&format!("advise-result:{kind}"), format!("{got:?}"));
                        }
                        c.case(&format!("advise:{kind}"), String::new());
                    }
                }
            }
        }
        // Same bytes at the same offsets, same size.
        let fa = std::fs::File::open(&pa).unwrap();
        let (la, lb) = (fa.metadata().unwrap().len(), twin.metadata().unwrap().len());
        if la != lb {
            c.fail(&format!("file-size-differs:{kind}"), format!("after step {step}: a10 fixture has {la} bytes, twin {lb}"));
            break;
        }
        let mut windows = vec![0u64, la.saturating_sub(4096)];
        if let Some(o) = off {
            windows.push(o.saturating_sub(16).min(la));
        }
        for w in windows {
            if read_window(&fa, w, 8192) != read_window(&twin, w, 8192) {
                c.fail(&format!("file-content-differs:{kind}"), format!("after step {step}: bytes around offset {w} differ between the a10 fixture and the twin"));
                break;
            }
        }
        // Metadata through a10 equals fstat.
        if rng.chance(1, 3) {
            let md = real.block_on(afd.metadata())?;
            if let Err(e) = &md {
                // fstat on the twin always works.
                c.fail(&format!("metadata-fails:{kind}"), format!("metadata() on a {kind} descriptor failed with {e}, fstat(2) on the twin succeeds"));
            }
            if let Ok(m) = md {
                let s = twin.metadata().unwrap();
                if m.len() != s.len() || m.is_file() != s.is_file() || m.is_dir() != s.is_dir() || u32::from(m.permissions().owner_can_write()) != ((s.mode() >> 7) & 1) {
                    c.fail(&format!("metadata-differs:{kind}"), format!("a10 len {} file {} / fstat len {} file {}", m.len(), m.is_file(), s.len(), s.is_file()));
                }
                c.case(&format!("metadata:{kind}"), String::new());
            }
        }
    }
    drop(afd);
    let _ = std::fs::remove_file(&pa);
    let _ = std::fs::remove_file(&pb);
    Ok(())
}

fn open_matrix(c: &mut Ctx<'_>, real: &mut Real, rng: &mut Rng) -> Result<(), Watchdog> {
    let sq = real.sq();
    let exists = rng.chance(1, 2);
    let (pa, pb) = (c.dir.join(format!("oa{}", c.index)), c.dir.join(format!("ob{}", c.index)));
    let _ = std::fs::remove_file(&pa);
    let _ = std::fs::remove_file(&pb);
    if exists {
        std::fs::write(&pa, b"existing content").unwrap();
        std::fs::write(&pb, b"existing content").unwrap();
    }
    let (write, create, create_new, truncate, append) = (rng.chance(1, 2), rng.chance(1, 2), rng.chance(1, 4), rng.chance(1, 3), rng.chance(1, 4));
    let mode = *rng.pick(&[0o600u32, 0o644, 0o400, 0o666, 0o755]);
    let direct = rng.chance(1, 3);
    let mut o = OpenOptions::new();
    let mut flags = libc::O_RDONLY | libc::O_CLOEXEC;
    if write {
        o = o.write();
        flags = (flags & !libc::O_ACCMODE) | libc::O_RDWR;
    }
    if create {
        o = o.create();
        flags |= libc::O_CREAT;
    }
    if create_new {
        o = o.create_new();
        flags |= libc::O_CREAT | libc::O_EXCL;
    }
    if truncate {
        o = o.truncate();
        flags |= libc::O_TRUNC;
    }
    if append {
        o = o.append();
        flags |= libc::O_APPEND;
    }
    o = o.mode(mode);
    if direct {
        o = o.kind(Kind::Direct);
    }
    let got = real.block_on(o.open(sq, pa.clone()))?;
    let cpath = std::ffi::CString::new(pb.as_os_str().as_encoded_bytes()).unwrap();
    let fd = unsafe { libc::open(cpath.as_ptr(), flags, mode) };
    let want: std::io::Result<OwnedFd> = if fd >= 0 { Ok(unsafe { OwnedFd::from_raw_fd(fd) }) } else { Err(std::io::Error::last_os_error()) };
    let desc = format!("exists={exists} write={write} create={create} create_new={create_new} truncate={truncate} append={append} mode={mode:o} direct={direct}");
    // a10's builder may combine flags differently from this model for access
    // modes; compare outcomes and resulting state, not the flag word.
    if got.is_ok() != want.is_ok() {
        c.fail("open-outcome", format!("{desc}: a10 {:?}, open(2) with the same options {:?}", got.as_ref().map(|_| ()), want.as_ref().map(|_| ())));
    } else if let (Err(a), Err(b)) = (&got, &want) {
        if a.raw_os_error() != b.raw_os_error() {
            c.fail("open-errno", format!("{desc}: a10 {a}, open(2) {b}"));
        }
    } else {
        let (ma, mb) = (std::fs::metadata(&pa), std::fs::metadata(&pb));
        match (ma, mb) {
            (Ok(a), Ok(b)) => {
                if a.len() != b.len() || a.permissions().mode() != b.permissions().mode() {
                    c.fail("open-resulting-state", format!("{desc}: a10 file len {} mode {:o}, twin len {} mode {:o}", a.len(), a.permissions().mode(), b.len(), b.permissions().mode()));
                }
            }
            (a, b) => {
                if a.is_ok() != b.is_ok() {
                    c.fail("open-resulting-state", format!("{desc}: file existence differs"));
                }
            }
        }
        if let Ok(afd) = &got {
            if (afd.kind() == Kind::Direct) != direct {
                c.fail("open-descriptor-kind", format!("{desc}: got {:?}", afd.kind()));
            }
        }
    }
    c.case("open", desc);
    drop(got);
    let _ = std::fs::remove_file(&pa);
    let _ = std::fs::remove_file(&pb);
    Ok(())
}

fn path_ops(c: &mut Ctx<'_>, real: &mut Real, rng: &mut Rng) -> Result<(), Watchdog> {
    let sq = real.sq();
    let (da, db) = (c.dir.join(format!("pa{}", c.index)), c.dir.join(format!("pb{}", c.index)));
    let _ = std::fs::remove_dir_all(&da);
    let _ = std::fs::remove_dir_all(&db);
    std::fs::create_dir(&da).unwrap();
    std::fs::create_dir(&db).unwrap();
    // Random pre-state.
    for (name, kind) in [("f", rng.below(3)), ("d", rng.below(3)), ("x", rng.below(3))] {
        for base in [&da, &db] {
            match kind {
                1 => std::fs::write(base.join(name), b"1").unwrap(),
                2 => {
                    std::fs::create_dir(base.join(name)).unwrap();
                    if rng.chance(1, 2) && std::ptr::eq(base, &da) {
                        // Keep both trees identical: decide once.
                    }
                }
                _ => {}
            }
        }
    }
    let names = ["f", "d", "x", "missing"];
    for _ in 0..4 {
        let n1 = *rng.pick(&names);
        let n2 = *rng.pick(&names);
        let which = rng.below(4);
        let (got, want, what): (std::io::Result<()>, std::io::Result<()>, String) = match which {
            0 => (real.block_on(a10::fs::create_dir(sq.clone(), da.join(n1)))?, std::fs::create_dir(db.join(n1)), format!("create_dir({n1})")),
            1 => (real.block_on(a10::fs::remove_file(sq.clone(), da.join(n1)))?, std::fs::remove_file(db.join(n1)), format!("remove_file({n1})")),
            2 => (real.block_on(a10::fs::remove_dir(sq.clone(), da.join(n1)))?, std::fs::remove_dir(db.join(n1)), format!("remove_dir({n1})")),
            _ => (real.block_on(a10::fs::rename(sq.clone(), da.join(n1), da.join(n2)))?, std::fs::rename(db.join(n1), db.join(n2)), format!("rename({n1},{n2})")),
        };
        if errno_of(&got) != errno_of(&want) {
            c.fail("path-op-outcome", format!("{what}: a10 {got:?}, libc {want:?}"));
        }
        // Same tree afterwards.
        let list = |p: &Path| {
            let mut v: Vec<(String, bool)> = std::fs::read_dir(p).unwrap().map(|e| e.unwrap()).map(|e| (e.file_name().to_string_lossy().to_string(), e.file_type().unwrap().is_dir())).collect();
            v.sort();
            v
        };
        if list(&da) != list(&db) {
            c.fail("path-op-resulting-tree", format!("after {what}: {:?} vs {:?}", list(&da), list(&db)));
            break;
        }
        c.case(["create_dir", "remove_file", "remove_dir", "rename"][which as usize], what);
    }
    let _ = std::fs::remove_dir_all(&da);
    let _ = std::fs::remove_dir_all(&db);
    Ok(())
}

fn socket_io(c: &mut Ctx<'_>, real: &mut Real, rng: &mut Rng) -> Result<(), Watchdog> {
    let sq = real.sq();
    let direct = rng.chance(1, 3);
    let kind = if direct { "direct" } else { "regular" };
    // Two identical stream pairs: a10 drives one end of pair A, libc the same end of pair B.
    let (a1, mut a2) = std::os::unix::net::UnixStream::pair().unwrap();
    let (b1, mut b2) = std::os::unix::net::UnixStream::pair().unwrap();
    let afd_regular = unsafe { AsyncFd::from_raw_fd(a1.into_raw_fd(), sq.clone()) };
    let afd = if direct {
        match real.block_on(afd_regular.to_direct_descriptor())? {
            Ok(d) => d,
            Err(_) => return Ok(()),
        }
    } else {
        afd_regular.try_clone().unwrap()
    };
    let payload = content(1 + rng.below(3000) as usize, 9);
    // send vs send(2)
    let sflag = if rng.chance(1, 3) { Some((a10::net::SendFlag::DONT_ROUTE, libc::MSG_DONTROUTE)) } else { None };
    let f = afd.send(payload.clone());
    let f = if let Some((fl, _)) = sflag { f.flags(fl) } else { f };
    let got = real.block_on(f)?;
    let want = unsafe { libc::send(b1.as_raw_fd(), payload.as_ptr().cast(), payload.len(), libc::MSG_NOSIGNAL | sflag.map(|s| s.1).unwrap_or(0)) };
    if got.as_ref().ok().copied() != (want >= 0).then_some(want as usize) {
        c.fail(&format!("send-result:{kind}"), format!("send of {} bytes: a10 {got:?}, send(2) {want}", payload.len()));
    }
    let (mut ra, mut rb) = (vec![0u8; payload.len()], vec![0u8; payload.len()]);
    let (na, nb) = (a2.read(&mut ra).unwrap_or(0), b2.read(&mut rb).unwrap_or(0));
    if ra[..na] != rb[..nb] {
        c.fail(&format!("send-content:{kind}"), format!("peer received {na} vs {nb} bytes (or different bytes)"));
    }
    c.case(&format!("send:{kind}"), format!("len={} flags={}", payload.len(), sflag.is_some()));
    // vectored send
    let parts = [content(rng.below(10) as usize, 1), content(1 + rng.below(200) as usize, 2)];
    let got = real.block_on(afd.send_vectored(parts.clone()))?;
    let all = parts.concat();
    let want = unsafe { libc::send(b1.as_raw_fd(), all.as_ptr().cast(), all.len(), libc::MSG_NOSIGNAL) };
    if got.as_ref().ok().copied() != (want >= 0).then_some(want as usize) {
        c.fail(&format!("sendmsg-result:{kind}"), format!("a10 {got:?}, send(2) {want}"));
    }
    let (mut ra, mut rb) = (vec![0u8; all.len()], vec![0u8; all.len()]);
    let (na, nb) = (a2.read(&mut ra).unwrap_or(0), b2.read(&mut rb).unwrap_or(0));
    if ra[..na] != rb[..nb] {
        c.fail(&format!("sendmsg-content:{kind}"), format!("peer received {na} vs {nb} bytes"));
    }
    c.case(&format!("send_vectored:{kind}"), format!("len={}", all.len()));
    // recv (with PEEK) vs recv(2)
    let incoming = content(1 + rng.below(500) as usize, 77);
    a2.write_all(&incoming).unwrap();
    b2.write_all(&incoming).unwrap();
    let peek = rng.chance(1, 2);
    let cap = 1 + rng.below(700) as usize;
    let f = afd.recv(Vec::with_capacity(cap));
    let f = if peek { f.flags(a10::net::RecvFlag::PEEK) } else { f };
    let got = real.block_on(f)?;
    let mut buf = vec![0u8; cap];
    let want = unsafe { libc::recv(b1.as_raw_fd(), buf.as_mut_ptr().cast(), cap, if peek { libc::MSG_PEEK } else { 0 }) };
    match &got {
        Ok(g) if want >= 0 && g.len() == want as usize && g[..] == buf[..g.len()] => {}
        _ => c.fail(&format!("recv-result:{kind}"), format!("recv cap {cap} peek {peek}: a10 {:?}, recv(2) {want}", got.as_ref().map(Vec::len))),
    }
    // Second receive shows whether PEEK consumed (more data first, so it never blocks).
    a2.write_all(b"tail").unwrap();
    b2.write_all(b"tail").unwrap();
    let got2 = real.block_on(afd.recv(Vec::with_capacity(cap)))?;
    let want2 = unsafe { libc::recv(b1.as_raw_fd(), buf.as_mut_ptr().cast(), cap, libc::MSG_DONTWAIT) };
    if got2.as_ref().map(Vec::len).ok() != (want2 >= 0).then_some(want2 as usize) || got2.as_ref().map(|g| g[..] == buf[..g.len()]).unwrap_or(false) == false {
        c.fail(&format!("recv-flags-effect:{kind}"), format!("second recv after peek={peek}: a10 {:?}, recv(2) {want2}", got2.as_ref().map(Vec::len)));
    }
    c.case(&format!("recv:{kind}"), format!("cap={cap} peek={peek}"));
    // socket options
    let v = 4096 + rng.below(60000) as u32;
    let got = real.block_on(afd.set_socket_option::<a10::net::option::SendBuf>(v))?;
    let vv = v as libc::c_int;
    let r = unsafe { libc::setsockopt(b1.as_raw_fd(), libc::SOL_SOCKET, libc::SO_SNDBUF, std::ptr::from_ref(&vv).cast(), 4) };
    if got.is_ok() != (r == 0) {
        c.fail(&format!("setsockopt-result:{kind}"), format!("a10 {got:?}, setsockopt {r}"));
    }
    let got = real.block_on(afd.socket_option::<a10::net::option::SendBuf>())?;
    let mut out: libc::c_int = 0;
    let mut len: libc::socklen_t = 4;
    let r = unsafe { libc::getsockopt(b1.as_raw_fd(), libc::SOL_SOCKET, libc::SO_SNDBUF, std::ptr::from_mut(&mut out).cast(), &mut len) };
    if got.as_ref().ok().copied() != (r == 0).then_some(out as u32) {
        c.fail(&format!("getsockopt-result:{kind}"), format!("SO_SNDBUF after setting {v}: a10 {got:?}, getsockopt {out}"));
    }
    c.case(&format!("sockopt:{kind}"), format!("sndbuf={v}"));
    // socket names vs getsockname(2)/getpeername(2) on the very same socket. Both ends get a
    // unique abstract name first, so that the answer cannot be confused with that of any other
    // socket of the process (a direct descriptor's index is also the number of some unrelated
    // file descriptor).
    {
        use std::os::linux::net::SocketAddrExt as _;
        static NAME: std::sync::atomic::AtomicU64 = std::sync::atomic::AtomicU64::new(0);
        let n = NAME.fetch_add(1, std::sync::atomic::Ordering::Relaxed);
        let names = [format!("a10v-{}-{n}-local", std::process::id()), format!("a10v-{}-{n}-peer", std::process::id())];
        let bind = |fd: i32, name: &str| {
            let mut st: libc::sockaddr_un = unsafe { std::mem::zeroed() };
            st.sun_family = libc::AF_UNIX as libc::sa_family_t;
            for (i, b) in name.bytes().enumerate() {
                st.sun_path[1 + i] = b as libc::c_char;
            }
            let len = std::mem::size_of::<libc::sa_family_t>() + 1 + name.len();
            unsafe { libc::bind(fd, std::ptr::from_ref(&st).cast(), len as libc::socklen_t) == 0 }
        };
        let named = bind((crate::ops::raw_of(&afd_regular) as i32), &names[0]) && bind(a2.as_raw_fd(), &names[1]);
        for (which, peer) in [("local_addr", false), ("peer_addr", true)] {
            let got: std::io::Result<std::os::unix::net::SocketAddr> =
                if peer { real.block_on(afd.peer_addr())? } else { real.block_on(afd.local_addr())? };
            // POSIX on the regular descriptor of the same socket.
            let mut st: libc::sockaddr_un = unsafe { std::mem::zeroed() };
            let mut len = std::mem::size_of::<libc::sockaddr_un>() as libc::socklen_t;
            let rfd = (crate::ops::raw_of(&afd_regular) as i32);
            let r = unsafe {
                if peer {
                    libc::getpeername(rfd, std::ptr::from_mut(&mut st).cast(), &mut len)
                } else {
                    libc::getsockname(rfd, std::ptr::from_mut(&mut st).cast(), &mut len)
                }
            };
            let off = std::mem::size_of::<libc::sa_family_t>();
            let posix: Vec<u8> = if r == 0 && len as usize > off { st.sun_path[..len as usize - off].iter().map(|b| *b as u8).collect() } else { Vec::new() };
            let same = |a: &std::os::unix::net::SocketAddr| match a.as_abstract_name() {
                Some(nm) => posix.first() == Some(&0) && &posix[1..] == nm,
                None => a.is_unnamed() && posix.is_empty(),
            };
            match &got {
                Ok(a) if r == 0 && same(a) => {}
                // The kernel has no socket-name command and a direct descriptor cannot be
                // given to getsockname(2): an honest "unsupported" is not a difference.
                Err(e) if direct && e.raw_os_error() == Some(libc::EOPNOTSUPP) => c.case("socket-name-unsupported:direct", which.to_string()),
                _ => c.fail(&format!("socket-name-result:{kind}"), format!("{which}: a10 {got:?}, the POSIX call on the same socket returned {r} with name {:?}", String::from_utf8_lossy(&posix))),
            }
            c.case(&format!("socket-name:{kind}"), format!("{which} named={named}"));
        }
    }
    // shutdown
    let how = *rng.pick(&[std::net::Shutdown::Write, std::net::Shutdown::Read, std::net::Shutdown::Both]);
    let got = real.block_on(afd.shutdown(how))?;
    let want = b1.shutdown(how);
    if errno_of(&got) != errno_of(&want) {
        c.fail(&format!("shutdown-result:{kind}"), format!("{how:?}: a10 {got:?}, shutdown(2) {want:?}"));
    }
    a2.set_nonblocking(true).unwrap();
    b2.set_nonblocking(true).unwrap();
    let (mut x, mut y) = ([0u8; 4], [0u8; 4]);
    let (ea, eb) = (a2.read(&mut x), b2.read(&mut y));
    if ea.as_ref().ok() != eb.as_ref().ok() {
        c.fail(&format!("shutdown-effect:{kind}"), format!("{how:?}: peer read {ea:?} vs {eb:?}"));
    }
    c.case(&format!("shutdown:{kind}"), format!("{how:?}"));
    drop(afd);
    drop(afd_regular);
    Ok(())
}

fn pipe_splice(c: &mut Ctx<'_>, real: &mut Real, rng: &mut Rng) -> Result<(), Watchdog> {
    let sq = real.sq();
    let direct = rng.chance(1, 3);
    let p = a10::pipe::pipe(sq.clone());
    let p = if direct { p.kind(Kind::Direct) } else { p };
    let Ok([r, w]) = real.block_on(p)? else {
        c.fail("pipe-failed", "pipe() failed".into());
        return Ok(());
    };
    if (r.kind() == Kind::Direct) != direct || (w.kind() == Kind::Direct) != direct {
        c.fail("pipe-descriptor-kind", format!("asked direct={direct}, got {:?}/{:?}", r.kind(), w.kind()));
    }
    let data = content(1 + rng.below(3000) as usize, 5);
    let n = real.block_on(w.write(data.clone()))?;
    let got = real.block_on(r.read(Vec::with_capacity(data.len())))?;
    match (&n, &got) {
        (Ok(n), Ok(g)) if *n == data.len() && g[..] == data[..] => {}
        _ => c.fail("pipe-round-trip", format!("wrote {n:?}, read {:?}", got.as_ref().map(Vec::len))),
    }
    c.case("pipe", format!("direct={direct} len={}", data.len()));
    // splice: file -> pipe, compared with splice(2) on twins.
    if !direct {
        let base = content(2000, 8);
        let (pa, pb) = (c.dir.join(format!("sa{}", c.index)), c.dir.join(format!("sb{}", c.index)));
        std::fs::write(&pa, &base).unwrap();
        std::fs::write(&pb, &base).unwrap();
        let sdirect = rng.chance(1, 2);
        let skind = if sdirect { "direct" } else { "regular" };
        if let Some(afd) = open_a10(real, &pa, sdirect)? {
            let twin = std::fs::File::open(&pb).unwrap();
            let [tr, tw] = a10::pipe::sync_pipe().unwrap();
            let off = rng.below(1500);
            let len = 1 + rng.below(600) as u32;
            let got = real.block_on(afd.splice_to(w.as_fd().unwrap(), len).from(off))?;
            let mut o = off as i64;
            let want = unsafe { libc::splice(twin.as_raw_fd(), &mut o, tw.as_raw_fd(), std::ptr::null_mut(), len as usize, 0) };
            if got.as_ref().ok().copied() != (want >= 0).then_some(want as usize) {
                c.fail(&format!("splice-result:{skind}"), format!("splice_to(len {len}).from({off}) from a {skind} descriptor: a10 {got:?}, splice(2) {want}"));
            } else if want > 0 {
                let a = real.block_on(r.read(Vec::with_capacity(want as usize)))?.unwrap_or_default();
                let mut b = vec![0u8; want as usize];
                let mut f = std::fs::File::from(tr);
                let nb = f.read(&mut b).unwrap_or(0);
                if a[..] != b[..nb] {
                    c.fail("splice-content", format!("{} vs {nb} bytes arrived in the pipes", a.len()));
                }
            }
            c.case(&format!("splice:{skind}"), format!("off={off} len={len}"));
        }
        let _ = std::fs::remove_file(&pa);
        let _ = std::fs::remove_file(&pb);
    }
    Ok(())
}

pub fn run(seed: u64, start: u64, iters: u64, rep: &mut Report) {
    let scratch = Scratch::new("c13");
    let mut real = match Real::new() {
        Ok(r) => r,
        Err(e) => {
            eprintln!("HARNESS-PANIC scenario=c13 real io_uring unavailable: {e}");
            std::process::exit(3);
        }
    };
    for index in start..start + iters {
        let mut rng = Rng::derive(seed, 0xC13, index);
        let mut c = Ctx { rep, seed, index, dir: scratch.path.clone() };
        let r = match index % 5 {
            0 | 1 => file_io(&mut c, &mut real, &mut rng),
            2 => open_matrix(&mut c, &mut real, &mut rng).and_then(|()| path_ops(&mut c, &mut real, &mut rng)),
            3 => socket_io(&mut c, &mut real, &mut rng),
            _ => pipe_splice(&mut c, &mut real, &mut rng),
        };
        if r.is_err() {
            eprintln!("HARNESS-PANIC scenario=c13 watchdog expired at index {index}");
            std::process::exit(3);
        }
    }
    drop(real);
    drop(scratch);
    crate::simk::install();
}

// ---------------------------------------------------------------------------
// Part A: ABI sweep on the simulated kernel. For operations and argument values
// that are hard to run for real, the submission a10 produces is decoded with the
// independent ABI table and every field is compared with the arguments.

pub mod abi_sweep {
    use std::task::Poll;

    use a10::fd::Kind;

    use crate::mon::alloc;
    use crate::ops::{DynOp, Outcome, fut_op, iter_op};
    use crate::out::{Report, ViolationOut};
    use crate::rng::{Rng, fnv};
    use crate::simk::abi::*;
    use crate::simk::mem::*;
    use crate::simk::{self, Sqe};
    use crate::world::{World, WorldCfg};

    fn unit<T>(r: std::io::Result<T>) -> Outcome {
        match r {
            Ok(_) => Outcome::ok(0),
            Err(e) => Outcome::err(&e),
        }
    }

    type Expect = Vec<(&'static str, u64, Box<dyn Fn(&Sqe) -> u64>)>;

    fn field(name: &'static str, want: u64, get: impl Fn(&Sqe) -> u64 + 'static) -> (&'static str, u64, Box<dyn Fn(&Sqe) -> u64>) {
        (name, want, Box::new(get))
    }

    unsafe fn cstr_at(addr: u64) -> Vec<u8> {
        unsafe { rd_bytes(addr, strlen(addr)) }
    }

    fn run_case(seed: u64, index: u64, rep: &mut Report) {
        let mut rng = Rng::derive(seed, 0xC13A, index);
        let mut w = World::new(&WorldCfg { sq_size: 8, cq_size: None, direct: true, pool: Some((2, 64)), sq_start: 0, cq_start: 0, layout_seed: 0 }, seed ^ index);
        w.ident = ("c13abi".into(), seed, index);
        let sq = w.sq.as_ref().unwrap().clone();
        let use_direct = rng.chance(1, 2);
        let fd: &'static a10::AsyncFd = if use_direct { w.env.as_ref().unwrap().dfd.unwrap() } else { w.env.as_ref().unwrap().fd };
        let raw_fd: i64 = crate::ops::raw_of(fd);
        let fixed = if use_direct { u64::from(IOSQE_FIXED_FILE) } else { 0 };
        let which = rng.below(37);
        let mut exp: Expect = Vec::new();
        let mut strings: Vec<(&'static str, Vec<u8>, Box<dyn Fn(&Sqe) -> u64>)> = Vec::new();
        let mut name: &'static str = "?";
        let op: Box<dyn DynOp> = alloc::a10(|| match which {
            0 => {
                name = "waitid";
                let (on, idt, id) = match rng.below(3) {
                    0 => {
                        let p = rng.next() as u32 & 0x7fff_ffff;
                        (a10::process::WaitOn::Process(p), libc::P_PID, p)
                    }
                    1 => {
                        let p = rng.next() as u32 & 0x7fff_ffff;
                        (a10::process::WaitOn::Group(p), libc::P_PGID, p)
                    }
                    _ => (a10::process::WaitOn::All, libc::P_ALL, 0),
                };
                let opts = [(a10::process::WaitOption::EXITED, libc::WEXITED), (a10::process::WaitOption::STOPPED, libc::WSTOPPED), (a10::process::WaitOption::CONTINUED, libc::WCONTINUED), (a10::process::WaitOption::NO_WAIT, libc::WNOWAIT)];
                let (o, oraw) = opts[rng.below(4) as usize];
                exp.push(field("opcode", u64::from(OP_WAITID), |s| u64::from(s.opcode())));
                exp.push(field("id (fd)", u64::from(id), |s| s.fd() as u32 as u64));
                exp.push(field("idtype (len)", u64::from(idt), |s| u64::from(s.len())));
                exp.push(field("options (file_index)", oraw as u64, |s| u64::from(s.file_index())));
                fut_op(a10::process::wait(sq.clone(), on).flags(o), unit)
            }
            1 => {
                name = "madvise";
                let addr = 0x10000 + (rng.below(1 << 30) << 12);
                let len = rng.next() as u32;
                let advs = [(a10::mem::AdviseFlag::NORMAL, libc::MADV_NORMAL), (a10::mem::AdviseFlag::RANDOM, libc::MADV_RANDOM), (a10::mem::AdviseFlag::WILL_NEED, libc::MADV_WILLNEED), (a10::mem::AdviseFlag::DONT_NEED, libc::MADV_DONTNEED)];
                let (a, araw) = advs[rng.below(4) as usize];
                exp.push(field("opcode", u64::from(OP_MADVISE), |s| u64::from(s.opcode())));
                exp.push(field("addr", addr, |s| s.addr()));
                exp.push(field("len", u64::from(len), |s| u64::from(s.len())));
                exp.push(field("advice", araw as u64, |s| u64::from(s.op_flags())));
                fut_op(a10::mem::advise(sq.clone(), addr as *mut (), len, a), unit)
            }
            2 => {
                name = "socket";
                let doms = [(a10::net::Domain::IPV4, libc::AF_INET), (a10::net::Domain::IPV6, libc::AF_INET6), (a10::net::Domain::UNIX, libc::AF_UNIX)];
                let typs = [(a10::net::Type::STREAM, libc::SOCK_STREAM), (a10::net::Type::DGRAM, libc::SOCK_DGRAM)];
                let (d, draw) = doms[rng.below(3) as usize];
                let (t, traw) = typs[rng.below(2) as usize];
                let direct = rng.chance(1, 2);
                exp.push(field("opcode", u64::from(OP_SOCKET), |s| u64::from(s.opcode())));
                exp.push(field("domain (fd)", draw as u64, |s| s.fd() as u64));
                exp.push(field("type|cloexec (off)", (traw | if direct { 0 } else { libc::SOCK_CLOEXEC }) as u64, |s| s.off()));
                let protos = [(None, 0), (Some(a10::net::Protocol::TCP), libc::IPPROTO_TCP), (Some(a10::net::Protocol::UDP), libc::IPPROTO_UDP), (Some(a10::net::Protocol::ICMPV6), libc::IPPROTO_ICMPV6)];
                let (proto, praw) = protos[rng.below(4) as usize];
                exp.push(field("protocol (len)", praw as u64, |s| u64::from(s.len())));
                exp.push(field("file_index", if direct { u64::from(FILE_INDEX_ALLOC) } else { 0 }, |s| u64::from(s.file_index())));
                let f = a10::net::socket(sq.clone(), d, t, proto);
                let f = if direct { f.kind(Kind::Direct) } else { f };
                fut_op(f, unit)
            }
            3 => {
                name = "listen";
                let b = rng.next() as u32 & 0xffff;
                exp.push(field("opcode", u64::from(OP_LISTEN), |s| u64::from(s.opcode())));
                exp.push(field("fd", raw_fd as u64, |s| s.fd() as u64));
                exp.push(field("backlog (len)", u64::from(b), |s| u64::from(s.len())));
                exp.push(field("FIXED_FILE", fixed, |s| u64::from(s.flags() & IOSQE_FIXED_FILE)));
                fut_op(fd.listen(b), unit)
            }
            4 => {
                name = "shutdown";
                let hows = [(std::net::Shutdown::Read, libc::SHUT_RD), (std::net::Shutdown::Write, libc::SHUT_WR), (std::net::Shutdown::Both, libc::SHUT_RDWR)];
                let (h, hraw) = hows[rng.below(3) as usize];
                exp.push(field("opcode", u64::from(OP_SHUTDOWN), |s| u64::from(s.opcode())));
                exp.push(field("fd", raw_fd as u64, |s| s.fd() as u64));
                exp.push(field("how (len)", hraw as u64, |s| u64::from(s.len())));
                exp.push(field("FIXED_FILE", fixed, |s| u64::from(s.flags() & IOSQE_FIXED_FILE)));
                fut_op(fd.shutdown(h), unit)
            }
            5 => {
                name = "fsync";
                let data = rng.chance(1, 2);
                exp.push(field("opcode", u64::from(OP_FSYNC), |s| u64::from(s.opcode())));
                exp.push(field("fd", raw_fd as u64, |s| s.fd() as u64));
                exp.push(field("fsync_flags", u64::from(data), |s| u64::from(s.op_flags())));
                exp.push(field("FIXED_FILE", fixed, |s| u64::from(s.flags() & IOSQE_FIXED_FILE)));
                if data { fut_op(fd.sync_data(), unit) } else { fut_op(fd.sync_all(), unit) }
            }
            6 => {
                name = "fallocate";
                let (o, l) = (rng.next() >> 1, rng.next() as u32);
                let keep = rng.chance(1, 2);
                exp.push(field("opcode", u64::from(OP_FALLOCATE), |s| u64::from(s.opcode())));
                exp.push(field("fd", raw_fd as u64, |s| s.fd() as u64));
                exp.push(field("offset (off)", o, |s| s.off()));
                exp.push(field("length (addr)", u64::from(l), |s| s.addr()));
                exp.push(field("mode (len)", if keep { libc::FALLOC_FL_KEEP_SIZE as u64 } else { 0 }, |s| u64::from(s.len())));
                exp.push(field("FIXED_FILE", fixed, |s| u64::from(s.flags() & IOSQE_FIXED_FILE)));
                let f = fd.allocate(o, l);
                fut_op(if keep { f.mode(a10::fs::AllocateMode::KEEP_SIZE) } else { f }, unit)
            }
            7 => {
                name = "fadvise";
                let (o, l) = (rng.next() >> 1, rng.next() as u32);
                let advs = [(a10::fs::AdviseFlag::NORMAL, libc::POSIX_FADV_NORMAL), (a10::fs::AdviseFlag::RANDOM, libc::POSIX_FADV_RANDOM), (a10::fs::AdviseFlag::WILL_NEED, libc::POSIX_FADV_WILLNEED), (a10::fs::AdviseFlag::DONT_NEED, libc::POSIX_FADV_DONTNEED), (a10::fs::AdviseFlag::NO_REUSE, libc::POSIX_FADV_NOREUSE)];
                let (a, araw) = advs[rng.below(5) as usize];
                exp.push(field("opcode", u64::from(OP_FADVISE), |s| u64::from(s.opcode())));
                exp.push(field("fd", raw_fd as u64, |s| s.fd() as u64));
                exp.push(field("offset", o, |s| s.off()));
                exp.push(field("len", u64::from(l), |s| u64::from(s.len())));
                exp.push(field("advice", araw as u64, |s| u64::from(s.op_flags())));
                fut_op(fd.advise(o, l, a), unit)
            }
            8 => {
                name = "ftruncate";
                let l = rng.next() >> 1;
                exp.push(field("opcode", u64::from(OP_FTRUNCATE), |s| u64::from(s.opcode())));
                exp.push(field("fd", raw_fd as u64, |s| s.fd() as u64));
                exp.push(field("length (off)", l, |s| s.off()));
                exp.push(field("FIXED_FILE", fixed, |s| u64::from(s.flags() & IOSQE_FIXED_FILE)));
                fut_op(fd.truncate(l), unit)
            }
            9 => {
                name = "statx";
                let only = rng.chance(1, 2);
                exp.push(field("opcode", u64::from(OP_STATX), |s| u64::from(s.opcode())));
                exp.push(field("fd", raw_fd as u64, |s| s.fd() as u64));
                exp.push(field("AT_EMPTY_PATH", libc::AT_EMPTY_PATH as u64, |s| u64::from(s.op_flags()) & libc::AT_EMPTY_PATH as u64));
                if only {
                    exp.push(field("mask (len)", u64::from(libc::STATX_SIZE), |s| u64::from(s.len())));
                }
                strings.push(("path", Vec::new(), Box::new(|s| s.addr())));
                let f = fd.metadata();
                fut_op(if only { f.only(a10::fs::MetadataInterest::SIZE) } else { f }, unit)
            }
            10 => {
                name = "unlink";
                let dir = rng.chance(1, 2);
                let p = format!("/tmp/verif/{}", rng.next());
                exp.push(field("opcode", u64::from(OP_UNLINKAT), |s| u64::from(s.opcode())));
                exp.push(field("dirfd", libc::AT_FDCWD as u32 as u64, |s| s.fd() as u32 as u64));
                exp.push(field("unlink_flags", if dir { libc::AT_REMOVEDIR as u64 } else { 0 }, |s| u64::from(s.op_flags())));
                strings.push(("path", p.clone().into_bytes(), Box::new(|s| s.addr())));
                if dir { fut_op(a10::fs::remove_dir(sq.clone(), p.into()), unit) } else { fut_op(a10::fs::remove_file(sq.clone(), p.into()), unit) }
            }
            11 => {
                name = "mkdir";
                let p = format!("/tmp/verif/d{}", rng.next());
                exp.push(field("opcode", u64::from(OP_MKDIRAT), |s| u64::from(s.opcode())));
                exp.push(field("dirfd", libc::AT_FDCWD as u32 as u64, |s| s.fd() as u32 as u64));
                exp.push(field("mode (len)", 0o777, |s| u64::from(s.len())));
                strings.push(("path", p.clone().into_bytes(), Box::new(|s| s.addr())));
                fut_op(a10::fs::create_dir(sq.clone(), p.into()), unit)
            }
            12 => {
                name = "rename";
                let (a, b) = (format!("/tmp/verif/a{}", rng.next()), format!("/tmp/verif/b{}", rng.next()));
                exp.push(field("opcode", u64::from(OP_RENAMEAT), |s| u64::from(s.opcode())));
                exp.push(field("olddirfd", libc::AT_FDCWD as u32 as u64, |s| s.fd() as u32 as u64));
                exp.push(field("newdirfd (len)", libc::AT_FDCWD as u32 as u64, |s| u64::from(s.len())));
                exp.push(field("rename_flags", 0, |s| u64::from(s.op_flags())));
                strings.push(("old path (addr)", a.clone().into_bytes(), Box::new(|s| s.addr())));
                strings.push(("new path (off)", b.clone().into_bytes(), Box::new(|s| s.off())));
                fut_op(a10::fs::rename(sq.clone(), a.into(), b.into()), unit)
            }
            13 => {
                name = "open";
                let p = format!("/tmp/verif/o{}", rng.next());
                let mode = *rng.pick(&[0o600u32, 0o644, 0o755, 0o4755]);
                let direct = rng.chance(1, 2);
                let (wr, cr, tr, ap) = (rng.chance(1, 2), rng.chance(1, 2), rng.chance(1, 2), rng.chance(1, 2));
                let mut o = a10::fs::OpenOptions::new();
                let mut flags = 0;
                if wr { o = o.write(); flags |= libc::O_RDWR; }
                if cr { o = o.create(); flags |= libc::O_CREAT; }
                if tr { o = o.truncate(); flags |= libc::O_TRUNC; }
                if ap { o = o.append(); flags |= libc::O_APPEND; }
                if !direct { flags |= libc::O_CLOEXEC; }
                o = o.mode(mode);
                if direct { o = o.kind(Kind::Direct); }
                exp.push(field("opcode", u64::from(OP_OPENAT), |s| u64::from(s.opcode())));
                exp.push(field("dirfd", libc::AT_FDCWD as u32 as u64, |s| s.fd() as u32 as u64));
                exp.push(field("mode (len)", u64::from(mode), |s| u64::from(s.len())));
                exp.push(field("open_flags", flags as u64, move |s| {
                    // O_APPEND implies write access in a10's builder; compare the bits the caller chose.
                    u64::from(s.op_flags()) & (libc::O_CREAT | libc::O_TRUNC | libc::O_APPEND | libc::O_CLOEXEC | if wr { libc::O_RDWR } else { 0 }) as u64
                }));
                exp.push(field("file_index", if direct { u64::from(FILE_INDEX_ALLOC) } else { 0 }, |s| u64::from(s.file_index())));
                strings.push(("path", p.clone().into_bytes(), Box::new(|s| s.addr())));
                fut_op(o.open(sq.clone(), p.into()), unit)
            }
            14 => {
                name = "splice";
                use std::os::fd::BorrowedFd;
                let target = unsafe { BorrowedFd::borrow_raw(1) };
                let (len, off_in, off_out) = (rng.next() as u32, rng.next() >> 1, rng.next() >> 1);
                let to = rng.chance(1, 2);
                let more = rng.chance(1, 2);
                exp.push(field("opcode", u64::from(OP_SPLICE), |s| u64::from(s.opcode())));
                exp.push(field("len", u64::from(len), |s| u64::from(s.len())));
                exp.push(field("fd_out (fd)", if to { 1 } else { raw_fd as u64 }, |s| s.fd() as u64));
                exp.push(field("fd_in (splice_fd_in)", if to { raw_fd as u64 } else { 1 }, |s| u64::from(s.file_index())));
                exp.push(field("off_in (addr)", off_in, |s| s.addr()));
                exp.push(field("off_out (off)", off_out, |s| s.off()));
                exp.push(field("splice_flags", if more { u64::from(libc::SPLICE_F_MORE) } else { 0 }, |s| u64::from(s.op_flags())));
                let f = if to { fd.splice_to(target, len) } else { fd.splice_from(target, len) };
                let f = f.from(off_in).at(off_out);
                fut_op(if more { f.flags(a10::io::SpliceFlag::MORE) } else { f }, unit)
            }
            15 => {
                name = "connect";
                let v6 = rng.chance(1, 2);
                exp.push(field("opcode", u64::from(OP_CONNECT), |s| u64::from(s.opcode())));
                exp.push(field("fd", raw_fd as u64, |s| s.fd() as u64));
                exp.push(field("addrlen (off)", if v6 { 28 } else { 16 }, |s| s.off()));
                exp.push(field("FIXED_FILE", fixed, |s| u64::from(s.flags() & IOSQE_FIXED_FILE)));
                if v6 {
                    let a = std::net::SocketAddrV6::new(std::net::Ipv6Addr::from(u128::from(rng.next())), rng.next() as u16, 0, 0);
                    let port = a.port();
                    exp.push(field("sin6_port (be)", u64::from(port.to_be()), |s| unsafe { u64::from(rd_u16(s.addr() + 2)) }));
                    exp.push(field("family", libc::AF_INET6 as u64, |s| unsafe { u64::from(rd_u16(s.addr())) }));
                    fut_op(fd.connect(a), unit)
                } else {
                    let a = std::net::SocketAddrV4::new(std::net::Ipv4Addr::from(rng.next() as u32), rng.next() as u16);
                    let (port, ip) = (a.port(), u32::from_ne_bytes(a.ip().octets()));
                    exp.push(field("sin_port (be)", u64::from(port.to_be()), |s| unsafe { u64::from(rd_u16(s.addr() + 2)) }));
                    exp.push(field("s_addr", u64::from(ip), |s| unsafe { u64::from(rd_u32(s.addr() + 4)) }));
                    exp.push(field("family", libc::AF_INET as u64, |s| unsafe { u64::from(rd_u16(s.addr())) }));
                    fut_op(fd.connect(a), unit)
                }
            }
            16 => {
                name = "bind";
                let a = std::net::SocketAddr::from((std::net::Ipv4Addr::from(rng.next() as u32), rng.next() as u16));
                exp.push(field("opcode", u64::from(OP_BIND), |s| u64::from(s.opcode())));
                exp.push(field("fd", raw_fd as u64, |s| s.fd() as u64));
                exp.push(field("addrlen (addr2)", 16, |s| s.off()));
                exp.push(field("family", libc::AF_INET as u64, |s| unsafe { u64::from(rd_u16(s.addr())) }));
                fut_op(fd.bind(a), unit)
            }
            17 => {
                name = "send_to";
                let a = std::net::SocketAddrV4::new(std::net::Ipv4Addr::from(rng.next() as u32), rng.next() as u16);
                let n = rng.below(200) as usize;
                let zc = rng.chance(1, 2);
                exp.push(field("opcode", u64::from(if zc { OP_SEND_ZC } else { OP_SEND }), |s| u64::from(s.opcode())));
                exp.push(field("fd", raw_fd as u64, |s| s.fd() as u64));
                exp.push(field("len", n as u64, |s| u64::from(s.len())));
                exp.push(field("addr_len", 16, |s| u64::from(s.u16_at(SQE_FILE_INDEX))));
                exp.push(field("dest port (be)", u64::from(a.port().to_be()), |s| unsafe { u64::from(rd_u16(s.off() + 2)) }));
                exp.push(field("msg_flags", libc::MSG_MORE as u64, |s| u64::from(s.op_flags())));
                let f = fd.send_to(vec![7u8; n], a).flags(a10::net::SendFlag::MORE);
                fut_op(if zc { f.zc() } else { f }, unit)
            }
            18 => {
                name = "set_socket_option";
                let v = rng.next() as u32 & 0x7fff_ffff;
                exp.push(field("opcode", u64::from(OP_URING_CMD), |s| u64::from(s.opcode())));
                exp.push(field("cmd_op", u64::from(SOCKET_URING_OP_SETSOCKOPT), |s| s.off() & 0xffff_ffff));
                exp.push(field("level", libc::SOL_SOCKET as u64, |s| s.addr() & 0xffff_ffff));
                exp.push(field("optname", libc::SO_RCVBUF as u64, |s| s.addr() >> 32));
                exp.push(field("optlen", 4, |s| u64::from(s.file_index())));
                exp.push(field("value", u64::from(v), |s| unsafe { u64::from(rd_u32(s.addr3())) }));
                exp.push(field("FIXED_FILE", fixed, |s| u64::from(s.flags() & IOSQE_FIXED_FILE)));
                fut_op(fd.set_socket_option::<a10::net::option::RecvBuf>(v), unit)
            }
            19 => {
                name = "socket_option";
                exp.push(field("opcode", u64::from(OP_URING_CMD), |s| u64::from(s.opcode())));
                exp.push(field("cmd_op", u64::from(SOCKET_URING_OP_GETSOCKOPT), |s| s.off() & 0xffff_ffff));
                exp.push(field("level", libc::SOL_SOCKET as u64, |s| s.addr() & 0xffff_ffff));
                exp.push(field("optname", libc::SO_KEEPALIVE as u64, |s| s.addr() >> 32));
                exp.push(field("optlen", 4, |s| u64::from(s.file_index())));
                fut_op(fd.socket_option::<a10::net::option::KeepAlive>(), unit)
            }
            20 => {
                name = "accept";
                exp.push(field("opcode", u64::from(OP_ACCEPT), |s| u64::from(s.opcode())));
                exp.push(field("fd", raw_fd as u64, |s| s.fd() as u64));
                exp.push(field("accept_flags", if use_direct { 0 } else { libc::SOCK_CLOEXEC as u64 }, |s| u64::from(s.op_flags())));
                exp.push(field("file_index", if use_direct { u64::from(FILE_INDEX_ALLOC) } else { 0 }, |s| u64::from(s.file_index())));
                exp.push(field("addrlen value", 28, |s| unsafe { u64::from(rd_u32(s.off())) }));
                exp.push(field("FIXED_FILE", fixed, |s| u64::from(s.flags() & IOSQE_FIXED_FILE)));
                fut_op(fd.accept::<std::net::SocketAddr>(), unit)
            }
            22 | 23 => {
                // Reads into pool buffers: the kernel selects the buffer, on either kind of descriptor.
                let recv = which == 23;
                name = if recv { "recv_pool" } else { "read_pool" };
                let pool = w.env.as_ref().unwrap().pool.as_ref().unwrap().clone();
                exp.push(field("opcode", u64::from(if recv { OP_RECV } else { OP_READ }), |s| u64::from(s.opcode())));
                exp.push(field("fd", raw_fd as u64, |s| s.fd() as u64));
                exp.push(field("flags (exactly)", fixed | u64::from(IOSQE_BUFFER_SELECT), |s| u64::from(s.flags())));
                exp.push(field("addr (none, kernel selects)", 0, |s| s.addr()));
                let map = |r: std::io::Result<a10::io::ReadBuf>| match r {
                    Ok(b) => {
                        let mut o = Outcome::ok(b.len() as i64);
                        o.rbufs.push(b);
                        o
                    }
                    Err(e) => Outcome::err(&e),
                };
                if recv { fut_op(fd.recv(pool.get()), map) } else { fut_op(fd.read(pool.get()), map) }
            }
            24 | 25 => {
                // Multishot reads/receives: pool buffers selected by the kernel for every item.
                let recv = which == 25;
                name = if recv { "multishot_recv" } else { "multishot_read" };
                let pool = w.env.as_ref().unwrap().pool.as_ref().unwrap().clone();
                exp.push(field("opcode", u64::from(if recv { OP_RECV } else { OP_READ_MULTISHOT }), |s| u64::from(s.opcode())));
                exp.push(field("fd", raw_fd as u64, |s| s.fd() as u64));
                exp.push(field("flags (exactly)", fixed | u64::from(IOSQE_BUFFER_SELECT), |s| u64::from(s.flags())));
                if recv {
                    exp.push(field("ioprio (multishot)", u64::from(RECV_MULTISHOT), |s| u64::from(s.ioprio() & RECV_MULTISHOT)));
                }
                let map = |r: std::io::Result<a10::io::ReadBuf>| match r {
                    Ok(b) => {
                        let mut o = Outcome::ok(b.len() as i64);
                        o.rbufs.push(b);
                        o
                    }
                    Err(e) => Outcome::err(&e),
                };
                if recv { iter_op(fd.multishot_recv(pool), |it, cx| it.poll_next(cx), map) } else { iter_op(fd.multishot_read(pool), |it, cx| it.poll_next(cx), map) }
            }
            28 => {
                name = "pipe";
                let direct = rng.chance(1, 2);
                exp.push(field("opcode", u64::from(OP_PIPE), |s| u64::from(s.opcode())));
                exp.push(field("pipe_flags", if direct { 0 } else { libc::O_CLOEXEC as u64 }, |s| u64::from(s.op_flags())));
                exp.push(field("file_index", if direct { u64::from(FILE_INDEX_ALLOC) } else { 0 }, |s| u64::from(s.file_index())));
                exp.push(field("flags (exactly)", 0, |s| u64::from(s.flags())));
                let f = a10::pipe::pipe(sq.clone());
                let f = if direct { f.kind(Kind::Direct) } else { f };
                fut_op(f, |r: std::io::Result<[a10::AsyncFd; 2]>| match r {
                    Ok([a, b]) => {
                        let mut o = Outcome::ok(0);
                        o.afds.push(a);
                        o.afds.push(b);
                        o
                    }
                    Err(e) => Outcome::err(&e),
                })
            }
            29 | 30 => {
                let peer = which == 30;
                name = if peer { "peer_addr" } else { "local_addr" };
                exp.push(field("opcode", u64::from(OP_URING_CMD), |s| u64::from(s.opcode())));
                exp.push(field("fd", raw_fd as u64, |s| s.fd() as u64));
                exp.push(field("cmd_op", u64::from(SOCKET_URING_OP_GETSOCKNAME), |s| s.off() & 0xffff_ffff));
                exp.push(field("peer (optlen)", u64::from(peer), |s| u64::from(s.file_index())));
                exp.push(field("address length given", 28, |s| unsafe { u64::from(rd_u32(s.addr3())) }));
                exp.push(field("flags (exactly)", fixed, |s| u64::from(s.flags())));
                if peer { fut_op(fd.peer_addr::<std::net::SocketAddr>(), unit) } else { fut_op(fd.local_addr::<std::net::SocketAddr>(), unit) }
            }
            27 => {
                name = "recv_from_pool";
                let pool = w.env.as_ref().unwrap().pool.as_ref().unwrap().clone();
                exp.push(field("opcode", u64::from(OP_RECVMSG), |s| u64::from(s.opcode())));
                exp.push(field("fd", raw_fd as u64, |s| s.fd() as u64));
                exp.push(field("flags (exactly)", fixed | u64::from(IOSQE_BUFFER_SELECT), |s| u64::from(s.flags())));
                fut_op(fd.recv_from::<_, std::net::SocketAddr>(pool.get()), |r: std::io::Result<(a10::io::ReadBuf, std::net::SocketAddr, i32)>| match r {
                    Ok((b, _, _)) => {
                        let mut o = Outcome::ok(b.len() as i64);
                        o.rbufs.push(b);
                        o
                    }
                    Err(e) => Outcome::err(&e),
                })
            }
            26 if use_direct => {
                name = "to_file_descriptor";
                exp.push(field("opcode", u64::from(OP_FIXED_FD_INSTALL), |s| u64::from(s.opcode())));
                exp.push(field("fd (index)", raw_fd as u64, |s| s.fd() as u64));
                exp.push(field("install flags", 0, |s| u64::from(s.op_flags())));
                exp.push(field("flags (exactly)", fixed, |s| u64::from(s.flags())));
                fut_op(fd.to_file_descriptor(), |r: std::io::Result<a10::AsyncFd>| match r {
                    Ok(a) => {
                        let mut o = Outcome::ok(crate::ops::raw_of(&a));
                        o.afds.push(a);
                        o
                    }
                    Err(e) => Outcome::err(&e),
                })
            }
            21 => {
                name = "multishot_accept";
                exp.push(field("opcode", u64::from(OP_ACCEPT), |s| u64::from(s.opcode())));
                exp.push(field("fd", raw_fd as u64, |s| s.fd() as u64));
                exp.push(field("ioprio (multishot)", u64::from(ACCEPT_MULTISHOT), |s| u64::from(s.ioprio())));
                exp.push(field("accept_flags", if use_direct { 0 } else { libc::SOCK_CLOEXEC as u64 }, |s| u64::from(s.op_flags())));
                exp.push(field("file_index", if use_direct { u64::from(FILE_INDEX_ALLOC) } else { 0 }, |s| u64::from(s.file_index())));
                exp.push(field("FIXED_FILE", fixed, |s| u64::from(s.flags() & IOSQE_FIXED_FILE)));
                iter_op(fd.multishot_accept(), |it, cx| it.poll_next(cx), |r: std::io::Result<a10::AsyncFd>| match r {
                    Ok(a) => {
                        let mut o = Outcome::ok(crate::ops::raw_of(&a));
                        o.afds.push(a);
                        o
                    }
                    Err(e) => Outcome::err(&e),
                })
            }
            _ => {
                name = "read_write_offsets";
                let off = match rng.below(4) {
                    0 => u64::MAX,
                    1 => (1u64 << 32) - 1,
                    2 => 1u64 << 40,
                    _ => rng.next() >> 1,
                };
                let n = rng.below(5000) as usize;
                let wr = rng.chance(1, 2);
                exp.push(field("opcode", u64::from(if wr { OP_WRITE } else { OP_READ }), |s| u64::from(s.opcode())));
                exp.push(field("fd", raw_fd as u64, |s| s.fd() as u64));
                exp.push(field("offset", off, |s| s.off()));
                exp.push(field("len", n as u64, |s| u64::from(s.len())));
                exp.push(field("FIXED_FILE", fixed, |s| u64::from(s.flags() & IOSQE_FIXED_FILE)));
                if wr {
                    let f = fd.write(vec![1u8; n]);
                    fut_op(if off != u64::MAX { f.at(off) } else { f }, unit)
                } else {
                    let f = fd.read(Vec::with_capacity(n));
                    fut_op(if off != u64::MAX { f.from(off) } else { f }, unit)
                }
            }
        });
        let i = w.add_op(name, op);
        if let Poll::Ready(o) = w.poll_slot(i) {
            w.violation("C13", format!("abi:{name}:resolved-without-kernel"), o.brief());
        }
        w.ring_poll();
        let id = simk::k().inflight_of(w.ring_fd).last().copied();
        match id {
            None => w.violation("C13", format!("abi:{name}:no-submission"), "operation did not reach the kernel".to_string()),
            Some(id) => {
                let sqe = simk::k().req(id).sqe.clone();
                for (fname, want, get) in &exp {
                    let got = get(&sqe);
                    if got != *want {
                        w.violation("C13", format!("abi:{name}:{fname}"), format!("{name} (descriptor kind: {}): field {fname} is {got:#x}, the arguments say {want:#x}; submission {}", if use_direct { "direct" } else { "regular" }, sqe.describe()));
                    }
                }
                for (fname, want, get) in &strings {
                    let got = unsafe { cstr_at(get(&sqe)) };
                    if got != *want {
                        w.violation("C13", format!("abi:{name}:{fname}"), format!("{name}: {fname} points at {:?}, expected {:?}", String::from_utf8_lossy(&got), String::from_utf8_lossy(want)));
                    }
                }
                w.complete(id, -libc::EIO, false);
                w.ring_poll();
                let _ = w.poll_slot(i);
            }
        }
        w.collect_monitor_violations();
        if !w.poisoned {
            w.teardown();
            w.collect_monitor_violations();
        }
        rep.cell(format!("abi:{name}"));
        rep.cell(format!("abi-kind:{}", if use_direct { "direct" } else { "regular" }));
        rep.count("abi_fields_checked", (exp.len() + strings.len()) as u64);
        let desc = format!("abi {name} direct={use_direct} fields={:?}", exp.iter().map(|e| (e.0, e.1)).collect::<Vec<_>>());
        rep.history(fnv(0, desc.as_bytes()), true, || desc.clone());
        for v in std::mem::take(&mut w.viol) {
            rep.violation(ViolationOut { prop: v.prop, sig: v.sig, detail: v.detail, scenario: "c13abi".into(), seed, index, trace: w.trace.clone() });
        }
    }

    pub fn run(seed: u64, start: u64, iters: u64, rep: &mut Report) {
        for index in start..start + iters {
            super::super::guarded(rep, "c13abi", "C13", seed, index, |rep| run_case(seed, index, rep));
        }
    }
}
