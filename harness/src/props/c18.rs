//! C18: Ring construction is all-or-nothing and honours its configuration.
//!
//! Enumerates configurations x kernel refusal points against the simulated
//! kernel and checks the descriptor, mapping and allocation ledgers.

use std::task::{Context, Poll};
use std::time::Duration;

use a10::{AsyncFd, Ring};

use crate::mon::alloc;
use crate::mon::fds;
use crate::mon::waker::new_waker;
use crate::ops::{Outcome, fut_op};
use crate::out::{Report, ViolationOut};
use crate::rng::fnv;
use crate::simk::abi::*;
use crate::simk::{self, effects};

#[derive(Clone, Debug)]
pub struct Cfg {
    sq: u32,
    max_size: bool,
    cq: Option<u32>,
    kernel_thread: bool,
    affinity: Option<u32>,
    idle_ms: Option<u64>,
    single_issuer: bool,
    defer: bool,
    disabled: bool,
    attach: bool,
    direct: Option<u32>,
}

#[derive(Copy, Clone, Debug, PartialEq, Eq)]
pub enum Refuse {
    None,
    Setup(i32),
    Feature(u32),
    Mmap(u32),
    Register,
}

pub fn configs() -> Vec<Cfg> {
    let mut out = Vec::new();
    let sqs: &[(u32, bool)] = &[(1, false), (2, false), (3, false), (8, false), (32768, false), (65536, false), (0, true), (0, false)];
    let cqs: &[Option<u32>] = &[None, Some(1), Some(3), Some(64), Some(1 << 20)];
    let kts: &[(bool, Option<u32>, Option<u64>)] = &[(false, None, None), (true, None, None), (true, Some(3), Some(250)), (true, Some(999), None), (false, Some(1), None)];
    let sis: &[(bool, bool)] = &[(false, false), (true, false), (true, true), (false, true)];
    for &(sq, max_size) in sqs {
        for &cq in cqs {
            for &(kernel_thread, affinity, idle_ms) in kts {
                for &(single_issuer, defer) in sis {
                    for disabled in [false, true] {
                        for attach in [false, true] {
                            for direct in [None, Some(16), Some(0)] {
                                // Keep the biggest rings to a few combinations.
                                if (sq >= 32768 || max_size) && (attach || direct.is_some() || disabled) {
                                    continue;
                                }
                                out.push(Cfg { sq, max_size, cq, kernel_thread, affinity, idle_ms, single_issuer, defer, disabled, attach, direct });
                            }
                        }
                    }
                }
            }
        }
    }
    out
}

pub fn refusals() -> Vec<Refuse> {
    vec![
        Refuse::None,
        Refuse::Setup(libc::ENOMEM),
        Refuse::Setup(libc::EPERM),
        Refuse::Feature(FEAT_NODROP),
        Refuse::Feature(FEAT_SUBMIT_STABLE),
        Refuse::Feature(FEAT_RW_CUR_POS),
        Refuse::Feature(FEAT_SQPOLL_NONFIXED),
        Refuse::Mmap(1),
        Refuse::Mmap(2),
        Refuse::Mmap(3),
        Refuse::Register,
    ]
}

pub fn total() -> u64 {
    (configs().len() * refusals().len()) as u64
}

fn viol(rep: &mut Report, seed: u64, index: u64, sig: String, detail: String, desc: &str) {
    rep.violation(ViolationOut { prop: "C18".into(), sig, detail: format!("{detail} [{desc}]"), scenario: "c18".into(), seed, index, trace: Vec::new() });
}

fn run_case(seed: u64, index: u64, cfg: &Cfg, refuse: Refuse, rep: &mut Report) {
    let desc = format!("{cfg:?} refuse={refuse:?}");
    simk::reset(seed ^ index);
    alloc::CONSUMER_PHASE_HOLDS.store(false, std::sync::atomic::Ordering::SeqCst);
    alloc::start_tracking();
    // A ring to attach to.
    let other = alloc::a10(|| Ring::config().with_submission_queue_size(2).build()).expect("helper ring");
    let other_sq = other.sq();
    let other_fd = simk::k().only_ring_fd();
    let base_fds = fds::open_fds().len();
    {
        let mut k = simk::k();
        k.knobs.layout_seed = (seed ^ index) | 1;
        k.setup_log.clear();
        match refuse {
            Refuse::None => {}
            Refuse::Setup(e) => k.knobs.setup_errno = e,
            Refuse::Feature(f) => k.knobs.withhold_features = f,
            Refuse::Mmap(n) => k.knobs.fail_mmap_nth = n,
            Refuse::Register => k.knobs.register_errno.push((REGISTER_FILES2, libc::ENOMEM)),
        }
    }
    let mut c = Ring::config();
    if cfg.max_size {
        c = c.with_maximum_queue_size();
    } else {
        c = c.with_submission_queue_size(cfg.sq);
    }
    if let Some(cq) = cfg.cq {
        c = c.with_completion_queue_size(cq);
    }
    if cfg.kernel_thread {
        c = c.with_kernel_thread();
    }
    if let Some(cpu) = cfg.affinity {
        c = c.with_cpu_affinity(cpu);
    }
    if let Some(ms) = cfg.idle_ms {
        c = c.with_idle_timeout(Duration::from_millis(ms));
    }
    if cfg.single_issuer {
        c = c.single_issuer();
    }
    if cfg.defer {
        c = c.defer_task_run();
    }
    if cfg.disabled {
        c = c.disable();
    }
    if cfg.attach {
        c = c.attach_queue(&other_sq);
    }
    if let Some(d) = cfg.direct {
        c = c.with_direct_descriptors(d);
    }
    let result = alloc::a10(|| c.build());
    // What did the kernel see and answer?
    let (seen, kernel_ok, new_fd) = {
        let mut k = simk::k();
        k.sync_fd_events();
        k.knobs.setup_errno = 0;
        k.knobs.withhold_features = 0;
        k.knobs.fail_mmap_nth = 0;
        k.knobs.register_errno.clear();
        let seen = k.setup_log.last().copied();
        let rings: Vec<i32> = k.rings.keys().copied().filter(|f| *f != other_fd).collect();
        (seen, !rings.is_empty(), rings.first().copied())
    };
    rep.cell(format!("refuse:{}", match refuse { Refuse::None => "none".to_string(), Refuse::Setup(_) => "setup".to_string(), Refuse::Feature(f) => format!("feature-{f}"), Refuse::Mmap(n) => format!("mmap-{n}"), Refuse::Register => "register".to_string() }));
    // The parameter block must say what the configuration says.
    if let Some([entries, flags, cq, cpu, idle, wq]) = seen {
        let mut problems = Vec::new();
        let want_entries = if cfg.max_size { u32::MAX } else { cfg.sq };
        if entries != want_entries {
            problems.push(format!("entries {entries} != {want_entries}"));
        }
        let want = |bit: u32, on: bool, name: &str, problems: &mut Vec<String>| {
            if (flags & bit != 0) != on {
                problems.push(format!("{name} flag is {} but configuration says {on}", flags & bit != 0));
            }
        };
        want(SETUP_SQPOLL, cfg.kernel_thread, "SQPOLL", &mut problems);
        want(SETUP_SQ_AFF, cfg.affinity.is_some(), "SQ_AFF", &mut problems);
        want(SETUP_SINGLE_ISSUER, cfg.single_issuer, "SINGLE_ISSUER", &mut problems);
        want(SETUP_DEFER_TASKRUN, cfg.defer, "DEFER_TASKRUN", &mut problems);
        want(SETUP_R_DISABLED, cfg.disabled, "R_DISABLED", &mut problems);
        want(SETUP_ATTACH_WQ, cfg.attach, "ATTACH_WQ", &mut problems);
        want(SETUP_CQSIZE, cfg.cq.is_some(), "CQSIZE", &mut problems);
        want(SETUP_CLAMP, cfg.max_size, "CLAMP", &mut problems);
        if let Some(c) = cfg.cq {
            if cq != c {
                problems.push(format!("cq_entries {cq} != {c}"));
            }
        }
        if let Some(c) = cfg.affinity {
            if cpu != c {
                problems.push(format!("sq_thread_cpu {cpu} != {c}"));
            }
        }
        if let Some(ms) = cfg.idle_ms {
            if u64::from(idle) != ms {
                problems.push(format!("sq_thread_idle {idle} != {ms}"));
            }
        }
        if cfg.attach && wq as i32 != other_fd {
            problems.push(format!("wq_fd {wq} != ring fd {other_fd}"));
        }
        for p in problems {
            viol(rep, seed, index, "params-differ-from-configuration".into(), p, &desc);
        }
    }
    let refused_by_script = match refuse {
        Refuse::None => false,
        Refuse::Register => cfg.direct.is_some(),
        _ => true,
    };
    match result {
        Err(e) => {
            rep.cell("result:err");
            // Nothing may be left behind.
            simk::k().sync_fd_events();
            let open = fds::open_fds();
            if open.len() != base_fds {
                viol(rep, seed, index, "failed-build-leaves-descriptor".into(), format!("build() failed with {e} but descriptors {open:?} are open ({base_fds} before)"), &desc);
            }
            let maps: Vec<String> = simk::k().mapping_leaks().into_iter().filter(|m| !m.starts_with(&format!("ring {other_fd} "))).collect();
            if !maps.is_empty() {
                viol(rep, seed, index, "failed-build-leaves-mapping".into(), format!("build() failed with {e} but {maps:?}"), &desc);
            }
            if kernel_ok && new_fd.is_some() {
                // The kernel still has the ring: its descriptor was not closed.
                viol(rep, seed, index, "failed-build-leaves-ring".into(), format!("build() failed with {e} but the kernel still has ring {new_fd:?}"), &desc);
            }
        }
        Ok(mut ring) => {
            rep.cell("result:ok");
            if refused_by_script && !matches!(refuse, Refuse::Setup(_)) {
                viol(rep, seed, index, format!("ok-despite-refusal:{refuse:?}"), "build() returned a Ring although the kernel refused".into(), &desc);
            }
            let rfd = new_fd.expect("ring registered in simk");
            let (granted_sq, granted_cq, kflags) = {
                let k = simk::k();
                let r = &k.rings[&rfd];
                (r.sq_entries, r.cq_entries, r.flags)
            };
            rep.cell(format!("granted-sq:{}", if granted_sq >= 32768 { "max".to_string() } else { granted_sq.to_string() }));
            let _ = (granted_cq, kflags);
            // A working ring: operations round-trip across the index wrap.
            let sq = ring.sq();
            let raw = fds::issue("world-fd");
            let afd = unsafe { AsyncFd::from_raw_fd(raw, sq.clone()) };
            let fdref: &'static AsyncFd = unsafe { &*std::ptr::from_ref(&afd) };
            let (waker, _ws) = new_waker();
            let mut cx = Context::from_waker(&waker);
            let n_ops = if granted_sq <= 8 { 2 * u64::from(granted_sq) + 3 } else { 3 };
            let mut ok = true;
            if cfg.disabled {
                // Submissions are refused until the ring is enabled.
                let mut op = alloc::a10(|| fut_op(fdref.read(Vec::with_capacity(16)).from(1), |r: std::io::Result<Vec<u8>>| match r {
                    Ok(v) => Outcome::ok(v.len() as i64),
                    Err(e) => Outcome::err(&e),
                }));
                let _ = alloc::a10(|| op.poll(&mut cx));
                let r = alloc::consumer(|| ring.poll(Some(Duration::ZERO)));
                if r.is_ok() && simk::k().inflight_of(rfd).len() > 0 {
                    viol(rep, seed, index, "disabled-ring-accepts-submissions".into(), "a ring built with disable() consumed a submission before enable()".into(), &desc);
                }
                alloc::a10(|| drop(op));
                if let Err(e) = alloc::a10(|| ring.enable()) {
                    viol(rep, seed, index, "enable-failed".into(), format!("Ring::enable failed: {e}"), &desc);
                    ok = false;
                }
                rep.cell("disabled-then-enabled");
            }
            if ok {
                for j in 0..n_ops {
                    let mut op = alloc::a10(|| fut_op(fdref.read(Vec::with_capacity(16)).from(100 + j), |r: std::io::Result<Vec<u8>>| match r {
                        Ok(v) => Outcome::ok(v.len() as i64),
                        Err(e) => Outcome::err(&e),
                    }));
                    let mut res = None;
                    for _ in 0..6 {
                        if let Poll::Ready(o) = alloc::a10(|| op.poll(&mut cx)) {
                            res = Some(o);
                            break;
                        }
                        let _ = alloc::consumer(|| ring.poll(Some(Duration::ZERO)));
                        let ids = simk::k().inflight_of(rfd);
                        for id in ids {
                            let mut k = simk::k();
                            let off = k.req(id).sqe.off();
                            effects::complete(&mut k, id, 1 + (off % 13) as i32, false);
                        }
                        let _ = alloc::consumer(|| ring.poll(Some(Duration::ZERO)));
                    }
                    match res {
                        Some(o) if o.res == Ok(1 + ((100 + j) % 13) as i64) => {}
                        other => {
                            viol(rep, seed, index, "built-ring-does-not-work".into(), format!("read #{j} on the new ring (granted sq {granted_sq}): {:?}", other.map(|o| o.brief())), &desc);
                            alloc::a10(|| drop(op));
                            break;
                        }
                    }
                    alloc::a10(|| drop(op));
                }
                rep.count("round_trip_ops", n_ops);
            }
            alloc::a10(|| drop(afd));
            let _ = alloc::consumer(|| ring.poll(Some(Duration::ZERO)));
            alloc::consumer(|| drop(ring));
            alloc::a10(|| drop(sq));
            simk::k().sync_fd_events();
            let open = fds::open_fds();
            if open.len() != base_fds {
                viol(rep, seed, index, "dropped-ring-leaves-descriptor".into(), format!("descriptors {open:?} open after the ring was dropped"), &desc);
            }
            let maps: Vec<String> = simk::k().mapping_leaks().into_iter().filter(|m| !m.starts_with(&format!("ring {other_fd} "))).collect();
            if !maps.is_empty() {
                viol(rep, seed, index, "dropped-ring-leaves-mapping".into(), format!("{maps:?}"), &desc);
            }
        }
    }
    alloc::a10(|| drop(other_sq));
    alloc::consumer(|| drop(other));
    simk::k().sync_fd_events();
    let leaks = alloc::end_tracking();
    if !leaks.is_empty() && index != u64::MAX {
        viol(rep, seed, index, "allocation-leak".into(), format!("{} block(s) allocated inside a10 still live (sizes {:?})", leaks.len(), leaks.iter().map(|l| l.size).take(6).collect::<Vec<_>>()), &desc);
    }
    for v in simk::k().take_violations() {
        viol(rep, seed, index, v.sig, v.detail, &desc);
    }
    for v in alloc::take_violations() {
        viol(rep, seed, index, format!("alloc-violation:{}", v.kind), format!("{v:?}"), &desc);
    }
    crate::mon::logsink::take();
    alloc::CONSUMER_PHASE_HOLDS.store(true, std::sync::atomic::Ordering::SeqCst);
    rep.absorb_counters();
    rep.history(fnv(0, desc.as_bytes()), true, || desc.clone());
}

pub fn run(seed: u64, start: u64, iters: u64, rep: &mut Report) {
    let cfgs = configs();
    let refs = refusals();
    let total = (cfgs.len() * refs.len()) as u64;
    // Warm-up (lazily initialised process state must not count as a leak).
    {
        let mut scratch = Report::new("warmup");
        super::guarded(&mut scratch, "c18", "C18", seed, u64::MAX, |r| run_case(seed, u64::MAX, &cfgs[0], Refuse::None, r));
    }
    for index in start..(start + iters).min(total) {
        let cfg = &cfgs[(index / refs.len() as u64) as usize];
        let refuse = refs[(index % refs.len() as u64) as usize];
        super::guarded(rep, "c18", "C18", seed, index, |rep| run_case(seed, index, cfg, refuse, rep));
    }
    rep.exhaustive = true;
    rep.counters.insert("config_space_total".into(), total);
}
