//! C10: all-or-error composite I/O under arbitrary short transfers.
//!
//! The simulated kernel is a byte sink / byte source that accepts exactly the
//! scripted number of bytes per request; the oracle is the obvious sequential
//! model of a stream.

use std::collections::VecDeque;
use std::io;
use std::task::Poll;

use a10::Extract;
use a10::io::BufMut;
use a10::net::{RecvFlag, SendFlag};

use crate::mon::alloc;
use crate::ops::{DynOp, Outcome, fut_op};
use crate::out::{Report, ViolationOut};
use crate::rng::{Rng, fnv};
use crate::simk::abi::*;
use crate::simk::mem::*;
use crate::simk::{self, ReqState, Sqe};
use crate::world::{SlotState, World, WorldCfg};

const NO_OFFSET: u64 = u64::MAX;

fn offered(sqe: &Sqe) -> Vec<u8> {
    unsafe {
        match sqe.opcode() {
            OP_WRITE | OP_SEND | OP_SEND_ZC => rd_bytes(sqe.addr(), sqe.len() as usize),
            OP_WRITEV => gather(sqe.addr(), sqe.len() as usize),
            OP_SENDMSG | OP_SENDMSG_ZC => {
                let m = sqe.addr();
                gather(rd_u64(m + 16), rd_u64(m + 24) as usize)
            }
            _ => Vec::new(),
        }
    }
}

unsafe fn gather(iov: u64, n: usize) -> Vec<u8> {
    let mut out = Vec::new();
    for i in 0..n {
        unsafe {
            let base = rd_u64(iov + (i * 16) as u64);
            let len = rd_u64(iov + (i * 16) as u64 + 8) as usize;
            out.extend_from_slice(&rd_bytes(base, len));
        }
    }
    out
}

/// Total writable space a read request offers.
fn read_space(sqe: &Sqe) -> usize {
    unsafe {
        match sqe.opcode() {
            OP_READ | OP_RECV => sqe.len() as usize,
            OP_READV => (0..sqe.len() as u64).map(|i| rd_u64(sqe.addr() + i * 16 + 8) as usize).sum(),
            OP_RECVMSG => {
                let m = sqe.addr();
                let iov = rd_u64(m + 16);
                (0..rd_u64(m + 24)).map(|i| rd_u64(iov + i * 16 + 8) as usize).sum()
            }
            _ => 0,
        }
    }
}

#[derive(Clone, Debug)]
struct Shape {
    family: &'static str,
    lens: Vec<usize>,
    offset: u64,
    flags: u32,
    zc: bool,
    extract: bool,
    chunks: Vec<u32>,
    errno_at: Option<usize>,
    n: usize,
    prefix: usize,
}

fn payload(rng: &mut Rng, n: usize, tag: u8) -> Vec<u8> {
    (0..n).map(|i| ((rng.next() as u8) & 0x3f) | ((tag & 3) << 6) | ((i == 0) as u8)).collect()
}

fn pick_offset(rng: &mut Rng) -> u64 {
    match rng.below(6) {
        0 | 1 => NO_OFFSET,
        2 => 0,
        3 => 1,
        4 => (1u64 << 32) - 1,
        _ => 1u64 << 40,
    }
}

fn send_flags(rng: &mut Rng) -> (SendFlag, u32) {
    let all = [SendFlag::CONFIRM, SendFlag::DONT_ROUTE, SendFlag::EOR, SendFlag::MORE, SendFlag::OOB];
    let raw = [libc::MSG_CONFIRM, libc::MSG_DONTROUTE, libc::MSG_EOR, libc::MSG_MORE, libc::MSG_OOB];
    let mut f: Option<SendFlag> = None;
    let mut r = 0u32;
    for i in 0..all.len() {
        if rng.chance(1, 4) {
            f = Some(match f {
                Some(x) => x | all[i],
                None => all[i],
            });
            r |= raw[i] as u32;
        }
    }
    match f {
        Some(f) => (f, r),
        None => (SendFlag::CONFIRM, libc::MSG_CONFIRM as u32),
    }
}

/// All compositions of `total` into positive parts (for small totals).
fn compositions(total: usize) -> Vec<Vec<u32>> {
    let mut out = Vec::new();
    for mask in 0..(1u32 << (total.max(1) - 1)) {
        let mut parts = Vec::new();
        let mut cur = 1;
        for b in 0..total.saturating_sub(1) {
            if mask & (1 << b) != 0 {
                parts.push(cur);
                cur = 1;
            } else {
                cur += 1;
            }
        }
        parts.push(cur);
        out.push(parts);
    }
    out
}

macro_rules! vectored_write {
    ($fd:expr, $bufs:expr, $shape:expr, $flags:expr, [$($n:literal),+]) => {{
        let s: &Shape = $shape;
        let bufs: Vec<Vec<u8>> = $bufs;
        let ptrs: Vec<usize> = bufs.iter().map(|b| b.as_ptr().addr()).collect();
        let want = bufs.clone();
        let check = move |r: io::Result<Vec<Vec<u8>>>| match r {
            Ok(back) => {
                let mut o = Outcome::ok(0);
                let same = back.iter().map(|b| b.as_ptr().addr()).collect::<Vec<_>>() == ptrs && back == want;
                o.extra = if same { "extract-ok".into() } else { "extract-mismatch".into() };
                o
            }
            Err(e) => Outcome::err(&e),
        };
        let unit = |r: io::Result<()>| match r {
            Ok(()) => Outcome::ok(0),
            Err(e) => Outcome::err(&e),
        };
        match bufs.len() {
            $( $n => {
                let arr: [Vec<u8>; $n] = bufs.try_into().unwrap();
                match (s.family, s.extract) {
                    ("write_all_vectored", false) => {
                        let f = $fd.write_all_vectored(arr);
                        let f = if s.offset != NO_OFFSET { f.at(s.offset) } else { f };
                        fut_op(f, unit)
                    }
                    ("write_all_vectored", true) => {
                        let f = $fd.write_all_vectored(arr);
                        let f = if s.offset != NO_OFFSET { f.at(s.offset) } else { f };
                        fut_op(f.extract(), move |r: io::Result<[Vec<u8>; $n]>| check(r.map(Vec::from)))
                    }
                    (_, false) => {
                        let f = $fd.send_all_vectored(arr).flags($flags);
                        let f = if s.zc { f.zc() } else { f };
                        fut_op(f, unit)
                    }
                    (_, true) => {
                        let f = $fd.send_all_vectored(arr).flags($flags);
                        let f = if s.zc { f.zc() } else { f };
                        fut_op(f.extract(), move |r: io::Result<[Vec<u8>; $n]>| check(r.map(Vec::from)))
                    }
                }
            } )+
            _ => unreachable!(),
        }
    }};
}

macro_rules! vectored_read {
    ($fd:expr, $bufs:expr, $shape:expr, $flags:expr, [$($n:literal),+]) => {{
        let s: &Shape = $shape;
        let bufs: Vec<Vec<u8>> = $bufs;
        let map = |r: io::Result<Vec<Vec<u8>>>| match r {
            Ok(b) => Outcome::ok(0).with_data(b.concat()),
            Err(e) => Outcome::err(&e),
        };
        match bufs.len() {
            $( $n => {
                let arr: [Vec<u8>; $n] = bufs.try_into().unwrap();
                if s.family == "read_n_vectored" {
                    let f = $fd.read_n_vectored(arr, s.n);
                    let f = if s.offset != NO_OFFSET { f.from(s.offset) } else { f };
                    fut_op(f, move |r: io::Result<[Vec<u8>; $n]>| map(r.map(Vec::from)))
                } else {
                    let f = $fd.recv_n_vectored(arr, s.n).flags($flags);
                    fut_op(f, move |r: io::Result<[Vec<u8>; $n]>| map(r.map(Vec::from)))
                }
            } )+
            _ => unreachable!(),
        }
    }};
}

fn run_case(seed: u64, index: u64, shape: Shape, rep: &mut Report) {
    let mut rng = Rng::derive(seed, 0xC10, index);
    let mut w = World::new(&WorldCfg { sq_size: *rng.pick(&[1, 2, 8]), cq_size: None, direct: false, pool: None, sq_start: 0, cq_start: 0, layout_seed: 0 }, seed ^ index);
    w.ident = ("c10".into(), seed, index);
    let fd: &'static a10::AsyncFd = w.env.as_ref().unwrap().fd;
    let raw_fd = {
        use std::os::fd::AsRawFd;
        fd.as_fd().unwrap().as_raw_fd()
    };
    let write_side = matches!(shape.family, "write_all" | "write_all_vectored" | "send_all" | "send_all_vectored");
    let (sflags, sraw) = send_flags(&mut rng);
    let (sflags, sraw) = if shape.flags == 0 { (sflags, sraw) } else { (sflags, sraw) };
    let rflags = RecvFlag::WAIT_ALL;
    let rraw = libc::MSG_WAITALL as u32;
    let bufs: Vec<Vec<u8>> = shape.lens.iter().enumerate().map(|(i, l)| payload(&mut rng, *l, i as u8)).collect();
    let expected: Vec<u8> = bufs.concat();
    let total = expected.len();
    // Build the operation.
    let op: Box<dyn DynOp> = alloc::a10(|| match shape.family {
        "write_all" => {
            let b = bufs[0].clone();
            let ptr = b.as_ptr().addr();
            let want = b.clone();
            let f = fd.write_all(b);
            let f = if shape.offset != NO_OFFSET { f.at(shape.offset) } else { f };
            if shape.extract {
                fut_op(f.extract(), move |r: io::Result<Vec<u8>>| match r {
                    Ok(b) => {
                        let mut o = Outcome::ok(0);
                        o.extra = if b.as_ptr().addr() == ptr && b == want { "extract-ok".into() } else { "extract-mismatch".into() };
                        o
                    }
                    Err(e) => Outcome::err(&e),
                })
            } else {
                fut_op(f, |r: io::Result<()>| match r {
                    Ok(()) => Outcome::ok(0),
                    Err(e) => Outcome::err(&e),
                })
            }
        }
        "send_all" => {
            let b = bufs[0].clone();
            let ptr = b.as_ptr().addr();
            let want = b.clone();
            let f = fd.send_all(b).flags(sflags);
            let f = if shape.zc { f.zc() } else { f };
            if shape.extract {
                fut_op(f.extract(), move |r: io::Result<Vec<u8>>| match r {
                    Ok(b) => {
                        let mut o = Outcome::ok(0);
                        o.extra = if b.as_ptr().addr() == ptr && b == want { "extract-ok".into() } else { "extract-mismatch".into() };
                        o
                    }
                    Err(e) => Outcome::err(&e),
                })
            } else {
                fut_op(f, |r: io::Result<()>| match r {
                    Ok(()) => Outcome::ok(0),
                    Err(e) => Outcome::err(&e),
                })
            }
        }
        "write_all_vectored" | "send_all_vectored" => vectored_write!(fd, bufs.clone(), &shape, sflags, [1, 2, 3, 4, 5, 6, 7, 8]),
        "read_n" | "recv_n" => {
            let mut b = Vec::with_capacity(shape.prefix + shape.lens[0]);
            b.extend((0..shape.prefix).map(|i| 0xF0 | (i as u8 & 7)));
            let map = |r: io::Result<Vec<u8>>| match r {
                Ok(b) => Outcome::ok(0).with_data(b),
                Err(e) => Outcome::err(&e),
            };
            if shape.family == "read_n" {
                if shape.extract {
                    // Limited buffer variant.
                    let f = fd.read_n(BufMut::limit(b, shape.lens[0]), shape.n);
                    let f = if shape.offset != NO_OFFSET { f.from(shape.offset) } else { f };
                    fut_op(f, move |r: io::Result<a10::io::LimitedBuf<Vec<u8>>>| map(r.map(|l| l.into_inner())))
                } else {
                    let f = fd.read_n(b, shape.n);
                    let f = if shape.offset != NO_OFFSET { f.from(shape.offset) } else { f };
                    fut_op(f, map)
                }
            } else {
                fut_op(fd.recv_n(b, shape.n).flags(rflags), map)
            }
        }
        "read_n_vectored" | "recv_n_vectored" => {
            let bufs: Vec<Vec<u8>> = shape.lens.iter().map(|l| Vec::with_capacity(*l)).collect();
            vectored_read!(fd, bufs, &shape, rflags, [1, 2, 3, 4, 5, 6, 7, 8])
        }
        other => panic!("unknown family {other}"),
    });
    let i = w.add_op(shape.family, op);
    let mut chunks: VecDeque<u32> = shape.chunks.iter().copied().collect();
    let mut sink: Vec<u8> = Vec::new();
    let mut source: Vec<u8> = Vec::new();
    let mut written = 0usize;
    let mut requests = 0usize;
    let mut got_zero = false;
    let mut injected_errno = None;
    let mut outcome: Option<Outcome> = None;
    let fail = |w: &mut World, sig: &str, d: String| w.violation("C10", format!("{sig}:{}", shape.family), d);
    for _round in 0..400 {
        let st = w.slots[i].state;
        if st == SlotState::Fresh || (st == SlotState::Pending && w.woken(i)) {
            if let Poll::Ready(o) = w.poll_slot(i) {
                outcome = Some(o);
                break;
            }
        }
        w.ring_poll();
        let ids = simk::k().inflight_of(w.ring_fd);
        for id in ids {
            let req = simk::k().req(id).clone();
            if req.state == ReqState::AwaitNotif {
                w.complete(id, 0, false);
                continue;
            }
            let sqe = &req.sqe;
            requests += 1;
            // Continuation must keep the caller's choices.
            let want_op: &[u8] = match (shape.family, shape.zc) {
                ("write_all", _) => &[OP_WRITE],
                ("write_all_vectored", _) => &[OP_WRITEV],
                ("send_all", false) => &[OP_SEND],
                ("send_all", true) => &[OP_SEND_ZC],
                ("send_all_vectored", false) => &[OP_SENDMSG],
                ("send_all_vectored", true) => &[OP_SENDMSG_ZC],
                ("read_n", _) => &[OP_READ],
                ("read_n_vectored", _) => &[OP_READV],
                ("recv_n", _) => &[OP_RECV],
                ("recv_n_vectored", _) => &[OP_RECVMSG],
                _ => &[],
            };
            if !want_op.contains(&sqe.opcode()) {
                fail(&mut w, "wrong-opcode", format!("request #{requests} uses {} (zero-copy requested: {})", op_name(sqe.opcode()), shape.zc));
            }
            if sqe.fd() != raw_fd {
                fail(&mut w, "wrong-descriptor", format!("request #{requests} on fd {} instead of {raw_fd}", sqe.fd()));
            }
            let positional = matches!(shape.family, "write_all" | "write_all_vectored" | "read_n" | "read_n_vectored");
            if positional {
                let want_off = if shape.offset == NO_OFFSET { NO_OFFSET } else { shape.offset + written as u64 };
                if sqe.off() != want_off {
                    fail(&mut w, "wrong-offset", format!("request #{requests} at offset {:#x}, expected {want_off:#x} (start {:#x}, {written} bytes done)", sqe.off(), shape.offset));
                }
            } else {
                let want_flags = if write_side { sraw } else { rraw };
                if sqe.op_flags() != want_flags {
                    fail(&mut w, "flags-dropped-on-continuation", format!("request #{requests} has msg_flags {:#x}, the caller chose {want_flags:#x}", sqe.op_flags()));
                }
            }
            if shape.errno_at == Some(requests - 1) {
                injected_errno = Some(libc::EIO);
                w.complete(id, -libc::EIO, false);
                continue;
            }
            let k = chunks.pop_front().unwrap_or(u32::MAX) as usize;
            if write_side {
                let off = offered(sqe);
                if off != expected[written.min(total)..] {
                    fail(&mut w, "continuation-offers-wrong-bytes", format!("request #{requests} offers {} bytes, the {} not yet written bytes were expected (or contents differ)", off.len(), total - written.min(total)));
                }
                let k = k.min(off.len());
                if k == 0 {
                    got_zero = true;
                }
                sink.extend_from_slice(&off[..k]);
                written += k;
                let more = shape.zc;
                w.complete(id, k as i32, more);
            } else {
                let space = read_space(sqe);
                let k = k.min(space);
                if k == 0 {
                    got_zero = true;
                }
                let c = w.complete(id, k as i32, false);
                let produced = simk::k().req(id).produced.last().cloned().unwrap_or_default();
                debug_assert!(c.res as usize == produced.len());
                source.extend_from_slice(&produced);
                written += produced.len();
            }
        }
        w.ring_poll();
    }
    let Some(o) = outcome else {
        fail(&mut w, "never-resolves", format!("{shape:?} did not resolve"));
        finish(&mut w, seed, index, &shape, rep, requests);
        return;
    };
    if write_side {
        match (&o.res, injected_errno) {
            (Err(e), Some(x)) if *e == x => {}
            (_, Some(x)) => fail(&mut w, "error-not-reported", format!("kernel failed request with errno {x}, future resolved with {}", o.brief())),
            (Ok(_), None) => {
                if sink != expected {
                    fail(&mut w, "ok-with-bytes-missing", format!("returned Ok after the kernel accepted {} of {} bytes in {requests} request(s); buffers {:?}, transfers {:?}", sink.len(), total, shape.lens, shape.chunks));
                }
                if shape.extract && o.extra != "extract-ok" {
                    fail(&mut w, "extract-returns-other-buffers", "extract variant did not return the caller's original buffers".into());
                }
            }
            (Err(_), None) => {
                let write_zero = o.extra.contains("WriteZero");
                if !(write_zero && got_zero && sink.len() < total) {
                    fail(&mut w, "spurious-error", format!("resolved with {} although the kernel accepted every request (sink {} of {total}, zero transfer seen: {got_zero})", o.brief(), sink.len()));
                }
            }
        }
        if got_zero && sink.len() < total && o.res.is_ok() {
            fail(&mut w, "ok-after-zero-transfer", "kernel accepted 0 bytes with data left, future returned Ok".into());
        }
    } else {
        match (&o.res, injected_errno) {
            (Err(e), Some(x)) if *e == x => {}
            (_, Some(x)) => fail(&mut w, "error-not-reported", format!("kernel failed request with errno {x}, future resolved with {}", o.brief())),
            (Ok(_), None) => {
                let data = o.data.clone().unwrap_or_default();
                let mut want: Vec<u8> = (0..shape.prefix).map(|i| 0xF0 | (i as u8 & 7)).collect();
                want.extend_from_slice(&source);
                if data != want {
                    fail(&mut w, "read-data-out-of-order", format!("buffer holds {} bytes, expected the {} prefix bytes followed by the {} bytes the kernel delivered in arrival order", data.len(), shape.prefix, source.len()));
                }
                if source.len() < shape.n {
                    fail(&mut w, "returned-before-n-bytes", format!("returned Ok with {} new bytes, {} requested", source.len(), shape.n));
                }
            }
            (Err(_), None) => {
                let eof = o.extra.contains("UnexpectedEof");
                if !(eof && got_zero && source.len() < shape.n) {
                    fail(&mut w, "spurious-error", format!("resolved with {} (delivered {} of {} bytes, end of stream seen: {got_zero})", o.brief(), source.len(), shape.n));
                }
            }
        }
    }
    finish(&mut w, seed, index, &shape, rep, requests);
}

fn finish(w: &mut World, seed: u64, index: u64, shape: &Shape, rep: &mut Report, requests: usize) {
    w.collect_monitor_violations();
    if !w.poisoned {
        w.teardown();
        w.collect_monitor_violations();
    }
    rep.cell(format!("family:{}", shape.family));
    rep.cell(format!("buffers:{}", shape.lens.len()));
    if shape.lens.iter().any(|l| *l == 0) {
        let pos = if *shape.lens.last().unwrap() == 0 { "trailing" } else if shape.lens[0] == 0 { "leading" } else { "middle" };
        rep.cell(format!("empty-buffer:{pos}"));
    }
    if shape.chunks.contains(&0) {
        rep.cell("zero-transfer");
    }
    if shape.zc {
        rep.cell("zero-copy");
    }
    if shape.offset != NO_OFFSET {
        rep.cell("positional");
    }
    rep.count("requests_checked", requests as u64);
    rep.absorb_counters();
    let desc = format!("{} lens={:?} n={} off={:#x} zc={} extract={} chunks={:?} errno_at={:?}", shape.family, shape.lens, shape.n, shape.offset, shape.zc, shape.extract, shape.chunks, shape.errno_at);
    let sig = fnv(0, desc.as_bytes());
    rep.history(sig, requests >= 2, || desc.clone());
    for v in std::mem::take(&mut w.viol) {
        rep.violation(ViolationOut { prop: v.prop, sig: v.sig, detail: format!("{} [{desc}]", v.detail), scenario: "c10".into(), seed, index, trace: w.trace.clone() });
    }
}

fn random_shape(rng: &mut Rng) -> Shape {
    let families = ["write_all", "write_all_vectored", "send_all", "send_all_vectored", "read_n", "read_n_vectored", "recv_n", "recv_n_vectored"];
    let family = *rng.pick(&families);
    let vectored = family.ends_with("vectored");
    let write_side = family.starts_with("write") || family.starts_with("send");
    let nbufs = if vectored { 1 + rng.below(8) as usize } else { 1 };
    let mut lens: Vec<usize> = (0..nbufs)
        .map(|_| match rng.below(10) {
            0 | 1 => 0,
            2..=6 => 1 + rng.below(12) as usize,
            7 | 8 => 1 + rng.below(300) as usize,
            _ => 65536 + rng.below(5000) as usize,
        })
        .collect();
    if lens.iter().sum::<usize>() == 0 {
        let i = rng.below(nbufs as u64) as usize;
        lens[i] = 1 + rng.below(20) as usize;
    }
    if !write_side && !vectored && lens[0] == 0 {
        lens[0] = 1 + rng.below(40) as usize;
    }
    let total: usize = lens.iter().sum();
    let n = if write_side { total } else { 1 + rng.below(total as u64) as usize };
    // Short transfer script.
    let mut chunks = Vec::new();
    let mut left = total;
    while left > 0 && chunks.len() < 40 {
        let k = match rng.below(10) {
            0 => 0,
            1..=4 => 1 + rng.below(left.min(8) as u64) as usize,
            5..=7 => 1 + rng.below(left as u64) as usize,
            _ => left,
        };
        chunks.push(k as u32);
        if k == 0 {
            break;
        }
        left -= k.min(left);
    }
    let errno_at = if rng.chance(1, 12) { Some(rng.below(3) as usize) } else { None };
    Shape {
        family,
        lens,
        offset: if family.starts_with("write") || family.starts_with("read") { pick_offset(rng) } else { NO_OFFSET },
        flags: 1,
        zc: family.starts_with("send") && rng.chance(1, 3),
        extract: rng.chance(1, 3),
        chunks,
        errno_at,
        n,
        prefix: if write_side || vectored { 0 } else { rng.below(6) as usize },
    }
}

/// Exhaustive part: every composition of small totals for every write family
/// and buffer split.
fn exhaustive_shapes() -> Vec<Shape> {
    let mut out = Vec::new();
    for total in 1..=6usize {
        for comp in compositions(total) {
            for family in ["write_all", "send_all"] {
                out.push(Shape { family, lens: vec![total], offset: if family == "write_all" { 7 } else { NO_OFFSET }, flags: 1, zc: false, extract: false, chunks: comp.clone(), errno_at: None, n: total, prefix: 0 });
            }
            // Splits of the total over 2 and 3 buffers, including empty ones.
            for a in 0..=total {
                for family in ["write_all_vectored", "send_all_vectored"] {
                    out.push(Shape { family, lens: vec![a, total - a], offset: NO_OFFSET, flags: 1, zc: false, extract: false, chunks: comp.clone(), errno_at: None, n: total, prefix: 0 });
                }
                if total <= 4 {
                    for b in 0..=(total - a) {
                        out.push(Shape { family: "write_all_vectored", lens: vec![a, b, total - a - b], offset: 3, flags: 1, zc: false, extract: true, chunks: comp.clone(), errno_at: None, n: total, prefix: 0 });
                    }
                }
            }
            for family in ["read_n", "recv_n"] {
                out.push(Shape { family, lens: vec![total + 2], offset: NO_OFFSET, flags: 1, zc: false, extract: false, chunks: comp.clone(), errno_at: None, n: total, prefix: 1 });
            }
            for a in 0..=total {
                out.push(Shape { family: "read_n_vectored", lens: vec![a, total - a + 1], offset: 5, flags: 1, zc: false, extract: false, chunks: comp.clone(), errno_at: None, n: total, prefix: 0 });
            }
        }
    }
    out
}

pub const EXHAUSTIVE_BASE: u64 = 1_000_000;

pub fn run(seed: u64, start: u64, iters: u64, rep: &mut Report, with_exhaustive: bool) {
    let ex = exhaustive_shapes();
    let mut indices: Vec<u64> = Vec::new();
    // Shard 0 runs the exhaustive small space first (not under Miri: too slow there).
    if start == 0 && with_exhaustive {
        indices.extend((0..ex.len() as u64).map(|i| EXHAUSTIVE_BASE + i));
    }
    indices.extend(start..start + iters);
    for index in indices {
        let s = if index >= EXHAUSTIVE_BASE {
            match ex.get((index - EXHAUSTIVE_BASE) as usize) {
                Some(s) => s.clone(),
                None => continue,
            }
        } else {
            let mut rng = Rng::derive(seed, 0xC10A, index);
            random_shape(&mut rng)
        };
        super::guarded(rep, "c10", "C10", seed, index, |rep| run_case(seed, index, s.clone(), rep));
    }
    if start == 0 && with_exhaustive {
        rep.count("exhaustive_small_shapes", ex.len() as u64);
    }
}
