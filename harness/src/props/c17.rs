//! C17: filesystem-watch (inotify) event streams are decoded exactly.
//!
//! The inotify descriptor and the watch descriptors are real, the reads go
//! through the simulated kernel which scripts the record stream.

use std::path::PathBuf;
use std::task::{Context, Poll};
use std::time::Duration;

use a10::Ring;
use a10::fs::notify::{Event, Interest, Recursive, Watcher};

use crate::mon::alloc;
use crate::mon::waker::new_waker;
use crate::out::{Report, ViolationOut};
use crate::rng::{Rng, fnv};
use crate::simk::abi::*;
use crate::simk::{self, effects};

#[derive(Clone, Debug)]
struct Rec {
    wd: i32,
    mask: u32,
    cookie: u32,
    name: Vec<u8>,
    pad: usize,
}

impl Rec {
    fn bytes(&self) -> Vec<u8> {
        let len = if self.name.is_empty() { 0 } else { self.name.len() + self.pad };
        let mut v = Vec::with_capacity(16 + len);
        v.extend_from_slice(&self.wd.to_ne_bytes());
        v.extend_from_slice(&self.mask.to_ne_bytes());
        v.extend_from_slice(&self.cookie.to_ne_bytes());
        v.extend_from_slice(&(len as u32).to_ne_bytes());
        v.extend_from_slice(&self.name);
        v.extend(std::iter::repeat(0u8).take(len - self.name.len()));
        v
    }
}

const DECOY_WD: i32 = 0x7EAD_BEEF;

fn decoy() -> Vec<u8> {
    Rec { wd: DECOY_WD, mask: libc::IN_CREATE, cookie: 0, name: b"DECOY".to_vec(), pad: 11 }.bytes()
}

fn viol(rep: &mut Report, seed: u64, index: u64, sig: &str, detail: String, trace: &[String]) {
    rep.violation(ViolationOut { prop: "C17".into(), sig: sig.into(), detail, scenario: "c17".into(), seed, index, trace: trace.to_vec() });
}

struct Kept {
    ptr: *const Event,
    mask: u32,
    name: Vec<u8>,
    at_read: usize,
}

fn snapshot(e: &Event) -> (u32, Vec<u8>) {
    #[allow(deprecated)]
    let name = e.file_path().as_os_str().as_encoded_bytes().to_vec();
    // The mask is only visible through the accessors / Debug; decode from Debug.
    let dbg = format!("{e:?}");
    let mask = dbg.split("mask: ").nth(1).and_then(|s| s.split(|c: char| !c.is_ascii_digit()).next()).and_then(|s| s.parse::<u32>().ok()).unwrap_or(u32::MAX);
    (mask, name)
}

fn run_case(seed: u64, index: u64, scratch: &std::path::Path, rep: &mut Report) {
    let mut rng = Rng::derive(seed, 0xC17, index);
    let mut trace: Vec<String> = Vec::new();
    simk::reset(seed ^ index);
    alloc::CONSUMER_PHASE_HOLDS.store(false, std::sync::atomic::Ordering::SeqCst);
    alloc::start_tracking();
    let mut ring = alloc::a10(|| Ring::config().with_submission_queue_size(8).build()).expect("ring");
    let ring_fd = simk::k().only_ring_fd();
    let sq = ring.sq();
    let mut watcher = alloc::a10(|| Watcher::new(sq.clone())).expect("inotify_init1");
    // Real watches on scratch directories: wd -> path as given.
    let ndirs = 1 + rng.below(3) as usize;
    let mut watched: Vec<(i32, PathBuf)> = Vec::new();
    for d in 0..ndirs {
        let dir = scratch.join(format!("w{index}-{d}"));
        alloc::a10(|| watcher.watch_directory(dir.clone(), Interest::ALL, Recursive::No)).expect("watch");
        // inotify hands out watch descriptors 1, 2, 3, ... per instance.
        watched.push((d as i32 + 1, dir));
    }
    // The record stream.
    let nrec = rng.below(14) as usize;
    let masks = [libc::IN_ACCESS, libc::IN_MODIFY, libc::IN_ATTRIB, libc::IN_CLOSE_WRITE, libc::IN_CLOSE_NOWRITE, libc::IN_OPEN, libc::IN_MOVED_FROM, libc::IN_MOVED_TO, libc::IN_CREATE, libc::IN_DELETE, libc::IN_DELETE_SELF, libc::IN_MOVE_SELF, libc::IN_UNMOUNT];
    let mut recs: Vec<Rec> = Vec::new();
    for _ in 0..nrec {
        let wd = match rng.below(8) {
            0 => 40 + rng.below(5) as i32, // unknown watch descriptor
            _ => watched[rng.below(watched.len() as u64) as usize].0,
        };
        let mut mask = *rng.pick(&masks);
        if rng.chance(1, 4) {
            mask |= *rng.pick(&masks);
        }
        if rng.chance(1, 4) {
            mask |= libc::IN_ISDIR;
        }
        match rng.below(12) {
            0 => mask = libc::IN_IGNORED,
            1 => mask = libc::IN_Q_OVERFLOW,
            _ => {}
        }
        let name_len = match rng.below(8) {
            0 | 1 => 0,
            2 => 255,
            3 => 1,
            4 => 15 + rng.below(3) as usize,
            _ => 1 + rng.below(40) as usize,
        };
        let name: Vec<u8> = (0..name_len).map(|i| b'a' + ((i as u64 + rng.below(26)) % 26) as u8).collect();
        // The kernel pads the name (plus its terminating NUL) to a multiple of
        // the record header size, which keeps every record aligned: 1..16 NULs.
        let pad = if name_len == 0 { 0 } else { ((name_len + 1 + 15) & !15) - name_len };
        let (wd, name, mask) = if mask == libc::IN_Q_OVERFLOW { (-1, Vec::new(), mask) } else { (wd, name, mask) };
        recs.push(Rec { wd, mask, cookie: rng.next() as u32, name, pad });
    }
    let end_with = rng.below(3); // 0: empty read, 1: error, 2: stop while pending
    // Expected user-visible events.
    let mut forgotten: Vec<i32> = Vec::new();
    let mut expected: Vec<(u32, Vec<u8>, PathBuf, usize)> = Vec::new(); // mask, name, full path, record index
    for (ri, r) in recs.iter().enumerate() {
        if r.mask & libc::IN_IGNORED != 0 {
            forgotten.push(r.wd);
            continue;
        }
        if r.mask & libc::IN_Q_OVERFLOW != 0 {
            continue;
        }
        let known = watched.iter().find(|w| w.0 == r.wd && !forgotten.contains(&r.wd));
        let name_path = PathBuf::from(std::ffi::OsString::from(String::from_utf8(r.name.clone()).unwrap()));
        let full = match known {
            Some((_, p)) if r.name.is_empty() => p.clone(),
            Some((_, p)) => p.join(&name_path),
            None => name_path.clone(),
        };
        expected.push((r.mask, r.name.clone(), full, ri));
    }
    let desc = format!("records={} dirs={ndirs} end={end_with} names={:?}", recs.len(), recs.iter().map(|r| (r.name.len(), r.pad, r.mask)).collect::<Vec<_>>());
    let decoy_bytes = decoy();
    let decoy_opt: Option<&[u8]> = if cfg!(miri) { None } else { Some(&decoy_bytes) };
    // Drive.
    let (waker, _ws) = new_waker();
    let mut cx = Context::from_waker(&waker);
    let mut next_rec = 0usize;
    let mut reads = 0usize;
    let mut yielded = 0usize;
    let mut kept: Vec<Kept> = Vec::new();
    let keep_upto = rng.below(4); // how long earlier events are kept: 0 never .. 3 across drop
    // Under Miri looking at a kept event after the buffer was reused is itself the undefined
    // behaviour of known finding D6 (reported natively by comparing contents); keep the Miri
    // runs for everything else the decoder does.
    // The same holds for the sanitizer flavours (the access hits freed memory when the
    // iterator is gone): there the allocator monitor cannot tell whether the block is live.
    let keep_upto = if alloc::PASS_THROUGH_ONLY { 0 } else { keep_upto };
    let mut ended = false;
    let mut diverged = false;
    {
        let mut events = Box::pin(alloc::a10(|| watcher.events()));
        'outer: for _round in 0..200 {
            loop {
                let polled = alloc::a10(|| events.as_mut().poll_next(&mut cx));
                // Events handed out earlier must still be what they were.
                if keep_upto >= 1 {
                    for k in &kept {
                        if alloc::block_of(k.ptr.cast::<u8>().addr()).map(|b| b.2).unwrap_or(true) {
                            let (m, n) = snapshot(unsafe { &*k.ptr });
                            if (m != k.mask || n != k.name) && reads > k.at_read {
                                viol(rep, seed, index, "event-ref-invalidated:by=next-read", format!("an &Event handed out from read #{} (mask {:#x}, name of {} bytes) changed after read #{reads} reused the buffer; safe code can still hold it ('w outlives the iterator's internal buffer)", k.at_read, k.mask, k.name.len()), &trace);
                                diverged = true;
                                break 'outer;
                            }
                        }
                    }
                }
                match polled {
                    Poll::Ready(Some(Ok(ev))) => {
                        let (mask, name) = snapshot(ev);
                        trace.push(format!("event:mask={mask:#x}:name={}", name.len()));
                        let Some((emask, ename, efull, _)) = expected.get(yielded) else {
                            let sig = if format!("{ev:?}").contains(&DECOY_WD.to_string()) || name == b"DECOY" { "read-beyond-kernel-bytes" } else { "extra-event" };
                            viol(rep, seed, index, sig, format!("event #{yielded} (mask {mask:#x}, name {:?}) was yielded but the kernel delivered only {} user-visible records [{desc}]", String::from_utf8_lossy(&name), expected.len()), &trace);
                            diverged = true;
                            break 'outer;
                        };
                        if mask != *emask || name != *ename {
                            let sig = if name == b"DECOY" { "read-beyond-kernel-bytes" } else if mask != *emask { "wrong-mask" } else { "wrong-name" };
                            viol(rep, seed, index, sig, format!("event #{yielded}: mask {mask:#x} name {:?} ({} bytes), expected mask {emask:#x} name of {} bytes [{desc}]", String::from_utf8_lossy(&name), name.len(), ename.len()), &trace);
                            diverged = true;
                            break 'outer;
                        }
                        let full = events.path_for(ev).into_owned();
                        if full != *efull {
                            viol(rep, seed, index, "wrong-path-for", format!("event #{yielded}: path_for = {full:?}, expected {efull:?}"), &trace);
                        }
                        // Every accessor is a view of the mask the kernel delivered.
                        let accessors: [(&str, bool, u32); 16] = [
                            ("is_dir", ev.is_dir(), libc::IN_ISDIR),
                            ("accessed", ev.accessed(), libc::IN_ACCESS),
                            ("modified", ev.modified(), libc::IN_MODIFY),
                            ("metadata_changed", ev.metadata_changed(), libc::IN_ATTRIB),
                            ("closed_write", ev.closed_write(), libc::IN_CLOSE_WRITE),
                            ("closed_no_write", ev.closed_no_write(), libc::IN_CLOSE_NOWRITE),
                            ("closed", ev.closed(), libc::IN_CLOSE),
                            ("opened", ev.opened(), libc::IN_OPEN),
                            ("deleted", ev.deleted(), libc::IN_DELETE_SELF),
                            ("moved", ev.moved(), libc::IN_MOVE_SELF),
                            ("unmounted", ev.unmounted(), libc::IN_UNMOUNT),
                            ("file_moved_from", ev.file_moved_from(), libc::IN_MOVED_FROM),
                            ("file_moved_into", ev.file_moved_into(), libc::IN_MOVED_TO),
                            ("file_moved", ev.file_moved(), libc::IN_MOVE),
                            ("file_created", ev.file_created(), libc::IN_CREATE),
                            ("file_deleted", ev.file_deleted(), libc::IN_DELETE),
                        ];
                        for (name, got, bit) in accessors {
                            if got != (mask & bit != 0) {
                                viol(rep, seed, index, &format!("wrong-accessor:{name}"), format!("event #{yielded}: {name}() = {got} for mask {mask:#x}"), &trace);
                            }
                        }
                        kept.push(Kept { ptr: std::ptr::from_ref(ev), mask, name, at_read: reads });
                        yielded += 1;
                    }
                    Poll::Ready(Some(Err(e))) => {
                        trace.push(format!("error:{e}"));
                        if end_with != 1 || next_rec < recs.len() {
                            viol(rep, seed, index, "unexpected-error", format!("iterator yielded error {e}"), &trace);
                        }
                        ended = true;
                        break 'outer;
                    }
                    Poll::Ready(None) => {
                        trace.push("end".into());
                        ended = true;
                        break 'outer;
                    }
                    Poll::Pending => break,
                }
            }
            let _ = alloc::consumer(|| ring.poll(Some(Duration::ZERO)));
            let ids = simk::k().inflight_of(ring_fd);
            for id in ids {
                let sqe = simk::k().req(id).sqe.clone();
                if sqe.opcode() != OP_READ {
                    continue;
                }
                reads += 1;
                if next_rec >= recs.len() {
                    match end_with {
                        0 => {
                            let mut k = simk::k();
                            effects::complete_data(&mut k, id, &[], decoy_opt);
                            trace.push("read:empty".into());
                        }
                        1 => {
                            let mut k = simk::k();
                            effects::complete(&mut k, id, -libc::EIO, false);
                            trace.push("read:EIO".into());
                        }
                        _ => {
                            trace.push("read:left-pending".into());
                            break 'outer;
                        }
                    }
                    continue;
                }
                // A batch of whole records that fits the buffer.
                let cap = sqe.len() as usize;
                let mut data = Vec::new();
                let want = 1 + rng.below(4) as usize;
                let mut n = 0;
                while next_rec < recs.len() && n < want {
                    let b = recs[next_rec].bytes();
                    if data.len() + b.len() > cap {
                        break;
                    }
                    data.extend_from_slice(&b);
                    next_rec += 1;
                    n += 1;
                }
                if n == 0 {
                    viol(rep, seed, index, "read-buffer-too-small", format!("read offers {cap} bytes, a record needs {}", recs[next_rec].bytes().len()), &trace);
                    diverged = true;
                    break 'outer;
                }
                trace.push(format!("read:{n}-records:{}-bytes", data.len()));
                let mut k = simk::k();
                effects::complete_data(&mut k, id, &data, decoy_opt);
            }
            let _ = alloc::consumer(|| ring.poll(Some(Duration::ZERO)));
        }
        if !diverged {
            let all_delivered = next_rec >= recs.len();
            if (ended || all_delivered) && yielded != expected.iter().filter(|e| e.3 < next_rec).count() {
                viol(rep, seed, index, "event-lost", format!("{yielded} events yielded, {} user-visible records were delivered [{desc}]", expected.iter().filter(|e| e.3 < next_rec).count()), &trace);
            }
        }
        alloc::a10(|| drop(events));
    }
    // After dropping the iterator the buffer is gone; safe code can still hold the events.
    if keep_upto >= 3 && !diverged && !alloc::PASS_THROUGH_ONLY {
        for k in &kept {
            let live = alloc::block_of(k.ptr.cast::<u8>().addr()).map(|b| b.2).unwrap_or(true);
            if !live {
                viol(rep, seed, index, "event-ref-invalidated:by=iterator-drop", format!("an &Event (mask {:#x}) still usable by safe code points into the iterator's read buffer, which was freed when the iterator was dropped", k.mask), &trace);
                break;
            }
        }
    }
    // The watch table: forgotten watches are gone, others still known.
    // (Observable through path_for only; checked above per event.)
    alloc::a10(|| drop(watcher));
    let _ = alloc::consumer(|| ring.poll(Some(Duration::ZERO)));
    alloc::consumer(|| drop(ring));
    alloc::a10(|| drop(sq));
    simk::k().sync_fd_events();
    for v in alloc::take_violations() {
        viol(rep, seed, index, &format!("alloc-violation:{}", v.kind), format!("{v:?}"), &trace);
    }
    for v in simk::k().take_violations() {
        if v.prop != "BLOCK" {
            viol(rep, seed, index, &v.sig, v.detail, &trace);
        }
    }
    let _ = alloc::end_tracking();
    alloc::CONSUMER_PHASE_HOLDS.store(true, std::sync::atomic::Ordering::SeqCst);
    crate::mon::logsink::take();
    rep.cell(format!("end:{end_with}"));
    rep.cell(format!("keep:{keep_upto}"));
    if recs.iter().any(|r| r.mask & libc::IN_IGNORED != 0) {
        rep.cell("record:ignored");
    }
    if recs.iter().any(|r| r.mask & libc::IN_Q_OVERFLOW != 0) {
        rep.cell("record:overflow");
    }
    if recs.iter().any(|r| r.name.len() == 255) {
        rep.cell("record:name-255");
    }
    if recs.iter().any(|r| r.name.is_empty()) {
        rep.cell("record:no-name");
    }
    if recs.iter().any(|r| r.wd >= 40) {
        rep.cell("record:unknown-wd");
    }
    rep.count("records_scripted", recs.len() as u64);
    rep.count("events_checked", yielded as u64);
    rep.count("reads_scripted", reads as u64);
    rep.absorb_counters();
    rep.history(fnv(0, desc.as_bytes()), recs.len() >= 2, || format!("{desc} :: {}", trace.join(" ")));
}

pub fn run(seed: u64, start: u64, iters: u64, rep: &mut Report) {
    // Watched paths are only names here: inotify_init1/inotify_add_watch are
    // interposed (mon::fds), nothing touches the file system.
    let scratch = std::path::PathBuf::from("/watched/by/c17");
    for index in start..start + iters {
        super::guarded(rep, "c17", "C17", seed, index, |rep| run_case(seed, index, &scratch, rep));
    }
}
