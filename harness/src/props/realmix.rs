//! E6 corroboration: random poll/drop/teardown histories of the real a10 on the
//! REAL io_uring of this machine (no simulated kernel), watched by the monitors
//! that do not need simk:
//!
//! * allocator monitor in quarantine mode: a block freed while the kernel still
//!   writes into it shows up as a changed poison pattern (C01),
//! * leak ledger: blocks allocated inside a10 that are still live after every
//!   future, descriptor, queue handle and the Ring were dropped (C06/C12),
//! * descriptor count of the process before/after (C07/C12),
//! * per-channel byte streams: what an operation returns is the next bytes the
//!   peer wrote, in order (C02).
//!
//! Pipes and stream socket pairs make completion timing controllable: a read
//! completes when the harness writes to the other end. Timing still varies
//! from run to run, so every oracle is of the "never allowed" kind and a
//! kernel that does not answer is a watchdog (inconclusive), not a finding.

use std::collections::VecDeque;
use std::io::{Read as _, Write as _};
use std::os::fd::{FromRawFd, OwnedFd};
use std::os::unix::net::UnixStream;
use std::task::{Context, Poll};
use std::time::Duration;

use a10::io::ReadBufPool;
use a10::{AsyncFd, Ring};

use crate::mon::alloc::{self, MonGuard};
use crate::mon::waker::new_waker;
use crate::ops::{DynOp, Env, Kind_, Outcome, make};
use crate::out::{Report, ViolationOut};
use crate::rng::{Rng, fnv};

#[derive(Copy, Clone, PartialEq, Eq, Debug)]
enum ChanKind {
    Sock,
    PipeIn,
    PipeOut,
}

struct Chan {
    kind: ChanKind,
    /// a10's end, leaked so that operations can borrow it for 'static.
    afd: *mut AsyncFd,
    /// The harness' end.
    peer_r: Option<std::fs::File>,
    peer_w: Option<std::fs::File>,
    /// Bytes the harness wrote that no a10 read has returned yet.
    unread: VecDeque<u8>,
    written_pos: u64,
    /// Bytes resolved a10 writes claim to have written / bytes the harness got.
    claimed: u64,
    received: u64,
    /// An operation of this direction was dropped in flight: the byte
    /// accounting of the direction is no longer exact.
    read_tainted: bool,
    write_tainted: bool,
    reader_active: bool,
}

struct Slot {
    op: Option<Box<dyn DynOp>>,
    chan: usize,
    kind: Kind_,
    reads: bool,
    polled: bool,
    done: bool,
}

fn open_fds() -> usize {
    let _g = MonGuard::new();
    std::fs::read_dir("/proc/self/fd").map(|d| d.count()).unwrap_or(0)
}

fn set_nonblocking(fd: i32) {
    unsafe {
        let fl = libc::fcntl(fd, libc::F_GETFL);
        libc::fcntl(fd, libc::F_SETFL, fl | libc::O_NONBLOCK);
    }
}

fn is_read(kind: Kind_) -> bool {
    use Kind_::*;
    matches!(kind, Read | ReadVectored | ReadPool | MultishotRead | ReadN | Recv | RecvVectored | RecvPool | MultishotRecv | RecvN)
}

fn viol(rep: &mut Report, seed: u64, index: u64, prop: &str, sig: String, detail: String, trace: &[String]) {
    let scenario = if sig.ends_with(":kernel-thread") { "realmixsq" } else { "realmix" };
    rep.violation(ViolationOut { prop: prop.into(), sig, detail, scenario: scenario.into(), seed, index, trace: trace.to_vec() });
}

fn run_case(seed: u64, index: u64, rep: &mut Report, kernel_thread: bool) {
    let mut rng = Rng::derive(seed, 0x4EA1, index);
    crate::simk::uninstall();
    // Single-threaded: a lock that cannot be taken after millions of attempts will never be
    // released by anybody. Natively that is what a use-after-free of an operation's state looks
    // like (the quarantine's poison pattern reads as a held lock). Report and end the process
    // instead of spinning until the shard's wall-clock limit.
    let scenario = if kernel_thread { "realmixsq" } else { "realmix" };
    *crate::sched::ON_STALL.lock().unwrap_or_else(|e| e.into_inner()) = Some(Box::new(move |lock_addr: usize| {
        let freed = matches!(alloc::block_of(lock_addr), Some((_, _, false)));
        let (prop, sig, what) = if freed {
            ("C01", "real:op-state-used-after-free", "which lies in a block that was already deallocated: the state of an operation was released while a10 (processing a completion of the real kernel) still uses it")
        } else {
            ("C06", "real:lock-never-released", "which nobody can release any more in this single-threaded history")
        };
        println!(
            "{{\"t\":\"viol\",\"prop\":{},\"sig\":{},\"detail\":{},\"scenario\":{},\"seed\":{seed},\"index\":{index},\"trace\":[]}}",
            crate::out::jstr(prop),
            crate::out::jstr(sig),
            crate::out::jstr(&format!("a10 spins for ever on the lock at {lock_addr:#x}, {what}")),
            crate::out::jstr(scenario)
        );
    }));
    let mut trace: Vec<String> = Vec::new();
    let fds_before = open_fds();
    alloc::CONSUMER_PHASE_HOLDS.store(false, std::sync::atomic::Ordering::SeqCst);
    alloc::start_tracking();
    let sq_size = *rng.pick(&[2u32, 4, 16, 64]);
    let direct_n: u32 = if rng.chance(1, 2) { 8 } else { 0 };
    let ring = alloc::a10(|| {
        let cfg = Ring::config().with_submission_queue_size(sq_size);
        let cfg = if direct_n > 0 { cfg.with_direct_descriptors(direct_n) } else { cfg };
        // Scenario realmixsq: rings with a (real) kernel submission thread. They are kept in a
        // process of their own: what such a ring leaves behind (known finding D14) is cleaned up by
        // its kernel thread at some later time and would disturb the descriptor count of later histories.
        let cfg = if kernel_thread { cfg.with_kernel_thread() } else { cfg };
        cfg.build()
    });
    let mut ring = match ring {
        Ok(r) => r,
        Err(e) => {
            alloc::force_stop_tracking();
            rep.count(&format!("real_ring_unavailable:{:?}", e.kind()), 1);
            rep.cell("realmix:skipped");
            return;
        }
    };
    let sq = ring.sq();
    let pool_size = *rng.pick(&[2u16, 4, 8]);
    let pool = if rng.chance(2, 3) { alloc::a10(|| ReadBufPool::new(sq.clone(), pool_size, [64u32, 48, 100, 24][(index % 4) as usize])).ok() } else { None };
    // A pool operation was abandoned (dropped in flight, or a multishot dropped with results nobody
    // collected): buffers lost that way are known finding D5 and make the conservation check below moot.
    let mut pool_op_abandoned = false;
    let mut chans: Vec<Chan> = Vec::new();
    let n_chans = 2 + rng.below(3) as usize;
    for _ in 0..n_chans {
        let kind = *rng.pick(&[ChanKind::Sock, ChanKind::Sock, ChanKind::PipeIn, ChanKind::PipeOut]);
        let _g = MonGuard::new();
        let (a10_end, peer_r, peer_w): (OwnedFd, Option<std::fs::File>, Option<std::fs::File>) = match kind {
            ChanKind::Sock => {
                let (a, b) = UnixStream::pair().expect("socketpair");
                b.set_nonblocking(true).unwrap();
                let b2 = b.try_clone().unwrap();
                (a.into(), Some(std::fs::File::from(OwnedFd::from(b))), Some(std::fs::File::from(OwnedFd::from(b2))))
            }
            ChanKind::PipeIn | ChanKind::PipeOut => {
                let mut f = [0i32; 2];
                assert_eq!(unsafe { libc::pipe2(f.as_mut_ptr(), libc::O_CLOEXEC) }, 0);
                let (r, w) = unsafe { (OwnedFd::from_raw_fd(f[0]), OwnedFd::from_raw_fd(f[1])) };
                if kind == ChanKind::PipeIn {
                    set_nonblocking(f[1]);
                    (r, None, Some(std::fs::File::from(w)))
                } else {
                    set_nonblocking(f[0]);
                    (w, Some(std::fs::File::from(r)), None)
                }
            }
        };
        drop(_g);
        let afd = alloc::a10(|| Box::into_raw(Box::new(AsyncFd::new(a10_end, sq.clone()))));
        chans.push(Chan { kind, afd, peer_r, peer_w, unread: VecDeque::new(), written_pos: 0, claimed: 0, received: 0, read_tainted: false, write_tainted: false, reader_active: false });
    }
    let (waker, _ws) = {
        let _g = MonGuard::new();
        new_waker()
    };
    let mut cx = Context::from_waker(&waker);
    let mut slots: Vec<Slot> = Vec::new();
    let mut kept: Vec<Outcome> = Vec::new();
    let mut found: Vec<(&'static str, String, String)> = Vec::new();
    let steps = 10 + rng.below(40);
    let mut ring_polls = 0u64;
    let mut resolved = 0u64;
    let mut dropped_in_flight = 0u64;

    // Feed `n` bytes to the a10 end of channel `c`.
    fn feed(ch: &mut Chan, n: usize) -> usize {
        let Some(w) = ch.peer_w.as_mut() else { return 0 };
        if ch.kind == ChanKind::PipeOut {
            return 0;
        }
        let _g = MonGuard::new();
        let bytes: Vec<u8> = (0..n as u64).map(|i| ((ch.written_pos + i) % 251) as u8).collect();
        match w.write(&bytes) {
            Ok(k) => {
                ch.unread.extend(&bytes[..k]);
                ch.written_pos += k as u64;
                k
            }
            Err(_) => 0,
        }
    }
    // Take what a10 wrote to channel `c`.
    fn drain(ch: &mut Chan) {
        let Some(r) = ch.peer_r.as_mut() else { return };
        if ch.kind == ChanKind::PipeIn {
            return;
        }
        let _g = MonGuard::new();
        let mut buf = [0u8; 4096];
        while let Ok(k) = r.read(&mut buf) {
            if k == 0 {
                break;
            }
            ch.received += k as u64;
        }
    }

    // Drive one operation to completion (descriptor-creating operations are never abandoned
    // here: results delivered to abandoned operations are known finding D5).
    fn drive(op: &mut Box<dyn DynOp>, ring: &mut Ring, cx: &mut Context<'_>) -> Option<Outcome> {
        for _ in 0..400 {
            if let Poll::Ready(o) = alloc::a10(|| op.poll(cx)) {
                return Some(o);
            }
            let _ = alloc::consumer(|| ring.poll(Some(Duration::from_micros(200))));
        }
        None
    }
    let mut kept_fds: Vec<AsyncFd> = Vec::new();
    let mut fd_watchdog = false;
    let mut fd_ops = 0u64;

    for _ in 0..steps {
        let x = rng.below(112);
        if x >= 100 {
            // A descriptor-creating operation, driven to completion, or the end of a descriptor.
            if x < 108 && kept_fds.len() < 6 {
                let mut kinds = vec![Kind_::Socket, Kind_::Pipe];
                if direct_n > 0 && kept_fds.iter().filter(|f| f.kind() == a10::fd::Kind::Direct).count() + 2 <= direct_n as usize {
                    kinds.extend([Kind_::SocketDirect, Kind_::PipeDirect, Kind_::ToDirect]);
                }
                let kind = *rng.pick(&kinds);
                let c = rng.below(chans.len() as u64) as usize;
                let env = Env { sq: sq.clone(), fd: unsafe { &*chans[c].afd }, dfd: None, pool: None, direct_enabled: direct_n > 0 };
                let mut op = alloc::a10(|| make(kind, &env, &mut rng));
                alloc::a10(|| drop(env));
                trace.push(format!("fdop:{kind:?}"));
                fd_ops += 1;
                match drive(&mut op, &mut ring, &mut cx) {
                    Some(mut o) => {
                        let want_direct = matches!(kind, Kind_::SocketDirect | Kind_::PipeDirect | Kind_::ToDirect);
                        if let Err(e) = o.res {
                            found.push(("C13", format!("real:descriptor-op-failed:{kind:?}"), format!("{kind:?} failed with errno {e} ({})", o.extra)));
                        }
                        for f in o.afds.drain(..) {
                            if (f.kind() == a10::fd::Kind::Direct) != want_direct {
                                found.push(("C07", "real:descriptor-wrong-kind".into(), format!("{kind:?} returned a descriptor of kind {:?}", f.kind())));
                            }
                            kept_fds.push(f);
                        }
                        alloc::a10(|| drop(o));
                        // A fresh pipe must carry bytes from its write end to its read end.
                        if matches!(kind, Kind_::Pipe | Kind_::PipeDirect) && kept_fds.len() >= 2 {
                            let n = kept_fds.len();
                            let (r, w) = (unsafe { &*std::ptr::from_ref(&kept_fds[n - 2]) }, unsafe { &*std::ptr::from_ref(&kept_fds[n - 1]) });
                            let mut wop = alloc::a10(|| crate::ops::fut_op(w.write(b"ping".to_vec()), |r: std::io::Result<usize>| match r {
                                Ok(n) => Outcome::ok(n as i64),
                                Err(e) => Outcome::err(&e),
                            }));
                            let wres = drive(&mut wop, &mut ring, &mut cx);
                            alloc::a10(|| drop(wop));
                            let mut rop = alloc::a10(|| crate::ops::fut_op(r.read(Vec::with_capacity(16)), |r: std::io::Result<Vec<u8>>| match r {
                                Ok(v) => Outcome::ok(v.len() as i64).with_data(v),
                                Err(e) => Outcome::err(&e),
                            }));
                            let rres = drive(&mut rop, &mut ring, &mut cx);
                            alloc::a10(|| drop(rop));
                            match (wres, rres) {
                                (Some(wo), Some(ro)) => {
                                    if wo.res != Ok(4) || ro.data.as_deref() != Some(&b"ping"[..]) {
                                        found.push(("C13", format!("real:new-pipe-does-not-carry-bytes:{kind:?}"), format!("write -> {}, read -> {} {:?}", wo.brief(), ro.brief(), ro.data)));
                                    }
                                    alloc::a10(|| drop((wo, ro)));
                                }
                                _ => fd_watchdog = true,
                            }
                        }
                    }
                    None => {
                        fd_watchdog = true;
                        std::mem::forget(op);
                        continue;
                    }
                }
                alloc::a10(|| drop(op));
            } else if !kept_fds.is_empty() {
                let n = rng.below(kept_fds.len() as u64) as usize;
                let f = kept_fds.swap_remove(n);
                if rng.chance(1, 2) {
                    trace.push("fd-close".into());
                    let mut op = alloc::a10(|| crate::ops::fut_op(f.close(), |r: std::io::Result<()>| match r {
                        Ok(()) => Outcome::ok(0),
                        Err(e) => Outcome::err(&e),
                    }));
                    match drive(&mut op, &mut ring, &mut cx) {
                        Some(o) => {
                            if o.res.is_err() {
                                found.push(("C07", "real:close-failed".into(), format!("AsyncFd::close() -> {}", o.brief())));
                            }
                        }
                        None => fd_watchdog = true,
                    }
                    alloc::a10(|| drop(op));
                } else {
                    trace.push("fd-drop".into());
                    alloc::a10(|| drop(f));
                }
            }
            continue;
        }
        if x < 25 && slots.len() < 12 {
            // New operation.
            let c = rng.below(chans.len() as u64) as usize;
            let kinds: &[Kind_] = match chans[c].kind {
                ChanKind::Sock => &[Kind_::Recv, Kind_::RecvVectored, Kind_::RecvPool, Kind_::MultishotRecv, Kind_::RecvN, Kind_::Read, Kind_::Send, Kind_::SendZc, Kind_::SendVectored, Kind_::SendAll, Kind_::Write],
                ChanKind::PipeIn => &[Kind_::Read, Kind_::ReadVectored, Kind_::ReadPool, Kind_::MultishotRead, Kind_::ReadN],
                ChanKind::PipeOut => &[Kind_::Write, Kind_::WriteVectored, Kind_::WriteAll, Kind_::WriteStatic],
            };
            let kind = *rng.pick(kinds);
            if kind.needs_pool() && pool.is_none() {
                continue;
            }
            let reads = is_read(kind);
            if reads && chans[c].reader_active {
                // One reader per channel at a time, otherwise the byte order is the kernel's choice.
                continue;
            }
            let env = Env { sq: sq.clone(), fd: unsafe { &*chans[c].afd }, dfd: None, pool: pool.clone(), direct_enabled: false };
            let op = alloc::a10(|| make(kind, &env, &mut rng));
            alloc::a10(|| drop(env));
            if reads {
                chans[c].reader_active = true;
            }
            trace.push(format!("new#{}:{kind:?}@{c}", slots.len()));
            slots.push(Slot { op: Some(op), chan: c, kind, reads, polled: false, done: false });
        } else if x < 50 && !slots.is_empty() {
            // Poll one.
            let i = rng.below(slots.len() as u64) as usize;
            if slots[i].op.is_none() || slots[i].done {
                continue;
            }
            slots[i].polled = true;
            let r = alloc::a10(|| slots[i].op.as_mut().unwrap().poll(&mut cx));
            if r.is_pending() {
                trace.push(format!("pending#{i}"));
            }
            if let Poll::Ready(o) = r {
                trace.push(format!("ready#{i}:{}", o.brief()));
                resolved += 1;
                let c = slots[i].chan;
                let multi = matches!(slots[i].kind, Kind_::MultishotRead | Kind_::MultishotRecv);
                if o.end || o.res.is_err() || !multi {
                    slots[i].done = true;
                    if slots[i].reads {
                        chans[c].reader_active = false;
                    }
                }
                if let (true, Some(data)) = (slots[i].reads, o.data.as_ref()) {
                    if !chans[c].read_tainted && o.res.is_ok() {
                        let skip = if slots[i].kind == Kind_::ReadAt { 5 } else { 0 };
                        let data = &data[skip.min(data.len())..];
                        let want: Vec<u8> = chans[c].unread.iter().take(data.len()).copied().collect();
                        if want.len() < data.len() || want[..] != data[..] {
                            found.push(("C02", format!("real:wrong-bytes:{:?}", slots[i].kind), format!("op #{i} ({:?}) on channel {c} returned {} bytes that are not the next bytes the peer wrote ({} unread)", slots[i].kind, data.len(), chans[c].unread.len())));
                            chans[c].read_tainted = true;
                        } else {
                            chans[c].unread.drain(..data.len());
                        }
                    }
                } else if !slots[i].reads {
                    if let Ok(n) = o.res {
                        chans[c].claimed += n as u64;
                    } else {
                        chans[c].write_tainted = true;
                    }
                }
                if rng.chance(1, 2) {
                    kept.push(o);
                } else {
                    alloc::a10(|| drop(o));
                }
            }
        } else if x < 70 {
            let t = if rng.chance(1, 4) { Duration::from_micros(300) } else { Duration::ZERO };
            let _ = alloc::consumer(|| ring.poll(Some(t)));
            trace.push("ringpoll".into());
            ring_polls += 1;
        } else if x < 85 {
            let c = rng.below(chans.len() as u64) as usize;
            let n = 1 + rng.below(90) as usize;
            let k = feed(&mut chans[c], n);
            if k > 0 {
                trace.push(format!("feed@{c}:{k}"));
            }
            drain(&mut chans[c]);
        } else if x < 95 && !slots.is_empty() {
            // Drop an operation wherever it is.
            let i = rng.below(slots.len() as u64) as usize;
            if let Some(op) = slots[i].op.take() {
                let c = slots[i].chan;
                if slots[i].polled && slots[i].kind.needs_pool() && (!slots[i].done || matches!(slots[i].kind, Kind_::MultishotRead | Kind_::MultishotRecv)) {
                    pool_op_abandoned = true;
                }
                if slots[i].polled && !slots[i].done {
                    dropped_in_flight += 1;
                    if slots[i].reads {
                        chans[c].read_tainted = true;
                    } else {
                        chans[c].write_tainted = true;
                    }
                }
                if slots[i].reads && !slots[i].done {
                    chans[c].reader_active = false;
                }
                slots[i].done = true;
                trace.push(format!("drop#{i}"));
                alloc::a10(|| drop(op));
            }
        } else if !kept.is_empty() {
            let n = rng.below(kept.len() as u64) as usize;
            let o = kept.swap_remove(n);
            alloc::a10(|| drop(o));
        }
    }
    // Quiesce a little: give running writes the chance to finish, then compare the write accounting.
    for _ in 0..3 {
        let _ = alloc::consumer(|| ring.poll(Some(Duration::from_micros(200))));
    }
    for c in 0..chans.len() {
        drain(&mut chans[c]);
    }
    let writes_running = slots.iter().any(|s| s.op.is_some() && !s.done && !s.reads && s.polled);
    for (c, ch) in chans.iter().enumerate() {
        if ch.kind != ChanKind::PipeIn && !ch.write_tainted && !writes_running && ch.received < ch.claimed {
            found.push(("C02", "real:write-count-exceeds-bytes-delivered".into(), format!("channel {c}: resolved writes/sends claim {} bytes, the peer received {}", ch.claimed, ch.received)));
        }
    }
    // Pool buffers are conserved: with no ReadBuf alive and no pool operation in flight (and none
    // abandoned before) the kernel can use every buffer of the pool again.
    let pool_ops_live = slots.iter().any(|s| s.op.is_some() && s.kind.needs_pool());
    if let (Some(_), false, false, false) = (pool.as_ref(), pool_op_abandoned, pool_ops_live, fd_watchdog) {
        let k = std::mem::take(&mut kept);
        alloc::a10(|| drop(k));
        // A channel a10 can read from that has no reader of its own right now.
        let free_chan = (0..chans.len()).find(|c| chans[*c].kind != ChanKind::PipeOut && !chans[*c].reader_active && !chans[*c].read_tainted && !slots.iter().any(|s| s.op.is_some() && s.reads && s.chan == *c));
        if let Some(c) = free_chan {
            let mut bufs: Vec<Outcome> = Vec::new();
            let mut lost = None;
            for i in 0..pool_size {
                if feed(&mut chans[c], 8) == 0 && chans[c].unread.is_empty() {
                    break;
                }
                let kind = if chans[c].kind == ChanKind::Sock { Kind_::RecvPool } else { Kind_::ReadPool };
                let env = Env { sq: sq.clone(), fd: unsafe { &*chans[c].afd }, dfd: None, pool: pool.clone(), direct_enabled: false };
                let mut op = alloc::a10(|| make(kind, &env, &mut rng));
                alloc::a10(|| drop(env));
                match drive(&mut op, &mut ring, &mut cx) {
                    Some(o) => {
                        match o.res {
                            Err(e) => {
                                lost = Some((i, e));
                            }
                            Ok(_) => {
                                if let Some(d) = o.data.as_ref() {
                                    let n = d.len().min(chans[c].unread.len());
                                    chans[c].unread.drain(..n);
                                }
                            }
                        }
                        bufs.push(o);
                    }
                    None => {
                        fd_watchdog = true;
                        std::mem::forget(op);
                        break;
                    }
                }
                alloc::a10(|| drop(op));
                if lost.is_some() {
                    break;
                }
            }
            if let Some((i, e)) = lost {
                found.push(("C08", (if kernel_thread { "real:pool-buffer-lost:kernel-thread" } else { "real:pool-buffer-lost" }).into(), format!("with no ReadBuf alive and no pool operation in flight or abandoned, read #{i} of {pool_size} into the pool of {pool_size} buffers failed with errno {e}: a buffer was not given back")));
            }
            trace.push(format!("pool-refilled:{}", bufs.len()));
            rep.cell(if bufs.len() == usize::from(pool_size) { "real-pool:refilled-completely" } else { "real-pool:refill-cut-short" });
            alloc::a10(|| drop(bufs));
        }
    }
    // Direct descriptor slots are conserved: with every direct descriptor of the history
    // dropped, the whole table can be allocated again.
    // (Not on kernel-thread rings: when that thread gets round to the queued closes is its business.)
    if direct_n > 0 && !fd_watchdog && !kernel_thread {
        kept_fds.retain(|f| f.kind() != a10::fd::Kind::Direct || {
            false
        });
        for _ in 0..4 {
            let _ = alloc::consumer(|| ring.poll(Some(Duration::from_micros(100))));
        }
        let mut again: Vec<AsyncFd> = Vec::new();
        let mut failed = None;
        for i in 0..direct_n {
            let env = Env { sq: sq.clone(), fd: unsafe { &*chans[0].afd }, dfd: None, pool: None, direct_enabled: true };
            let mut op = alloc::a10(|| make(Kind_::SocketDirect, &env, &mut rng));
            alloc::a10(|| drop(env));
            match drive(&mut op, &mut ring, &mut cx) {
                Some(mut o) => {
                    if let Err(e) = o.res {
                        failed = Some((i, e));
                    }
                    again.extend(o.afds.drain(..));
                }
                None => {
                    fd_watchdog = true;
                    std::mem::forget(op);
                    break;
                }
            }
            alloc::a10(|| drop(op));
            if failed.is_some() {
                break;
            }
        }
        if let Some((i, e)) = failed {
            found.push(("C07", "real:direct-slot-leak".into(), format!("with every direct descriptor of the history dropped only {i} of the {direct_n} slots of the table could be allocated again (errno {e}): dropped direct descriptors were not released")));
        }
        trace.push(format!("direct-table-refilled:{}", again.len()));
        alloc::a10(|| drop(again));
        for _ in 0..3 {
            let _ = alloc::consumer(|| ring.poll(Some(Duration::from_micros(100))));
        }
    }
    // Teardown in a random order.
    let mut order: Vec<u8> = vec![0, 1, 2, 3, 4];
    rng.shuffle(&mut order);
    let mut ring = Some(ring);
    let mut sq = Some(sq);
    let mut pool = Some(pool);
    for what in order {
        match what {
            0 => {
                trace.push("drop-ops".into());
                for s in slots.iter_mut() {
                    if let Some(op) = s.op.take() {
                        alloc::a10(|| drop(op));
                    }
                }
            }
            1 => {
                trace.push("drop-ring".into());
                let r = ring.take().unwrap();
                alloc::consumer(|| drop(r));
            }
            2 => {
                // Operations borrow their descriptor: safe code cannot drop it first.
                for s in slots.iter_mut() {
                    if let Some(op) = s.op.take() {
                        alloc::a10(|| drop(op));
                    }
                }
                trace.push("drop-fds".into());
                for ch in chans.iter_mut() {
                    let b = unsafe { Box::from_raw(ch.afd) };
                    ch.afd = std::ptr::null_mut();
                    alloc::a10(|| drop(b));
                }
            }
            3 => {
                trace.push("drop-results".into());
                let k = std::mem::take(&mut kept);
                alloc::a10(|| drop(k));
                let k = std::mem::take(&mut kept_fds);
                alloc::a10(|| drop(k));
                let p = pool.take().unwrap();
                alloc::a10(|| drop(p));
            }
            _ => {
                trace.push("drop-sq".into());
                let s = sq.take().unwrap();
                alloc::a10(|| drop(s));
            }
        }
        // Anything the kernel still has armed on memory freed above would fire now.
        for ch in chans.iter_mut() {
            if ch.kind != ChanKind::PipeOut {
                feed(ch, 70);
            }
        }
        if ring.is_some() && what != 1 && rng.chance(1, 2) {
            let _ = alloc::consumer(|| ring.as_mut().unwrap().poll(Some(Duration::ZERO)));
        }
    }
    {
        let _g = MonGuard::new();
        std::thread::sleep(Duration::from_micros(300));
        for ch in chans.iter_mut() {
            ch.peer_r = None;
            ch.peer_w = None;
        }
        drop(cx);
    }
    drop(waker);
    let leaks = alloc::end_tracking();
    for v in alloc::take_violations() {
        let (prop, sig) = match v.kind {
            alloc::V_WRITE_AFTER_FREE => ("C01", "real:write-after-free".to_string()),
            alloc::V_DOUBLE_FREE => ("C06", "real:double-free".to_string()),
            _ => ("C01", format!("real:alloc-violation:{}", v.kind)),
        };
        found.push((prop, sig, format!("{v:?}: memory freed during the history was modified afterwards (the real kernel completed an operation into it), or freed twice")));
    }
    // (An operation the watchdog gave up on was forgotten, not dropped: no leak verdict then.)
    if !leaks.is_empty() && !fd_watchdog {
        // On a ring with a kernel submission thread the Ring's drop races with that thread
        // (known finding D14): keep the two apart.
        found.push(("C06", (if kernel_thread { "real:state-leak:kernel-thread" } else { "real:state-leak" }).into(), format!("{} block(s) allocated inside a10 (sizes {:?}) are still live after every operation, result, descriptor, queue handle and the Ring were dropped", leaks.len(), leaks.iter().map(|l| l.size).take(8).collect::<Vec<_>>())));
    }
    let fds_after = open_fds();
    if fd_watchdog {
        rep.count("realmix_descriptor_watchdog", 1);
    }
    rep.count("real_descriptor_ops", fd_ops);
    if fds_after != fds_before && !fd_watchdog {
        found.push(("C07", (if kernel_thread { "real:descriptor-count-changed:kernel-thread" } else { "real:descriptor-count-changed" }).into(), format!("{fds_before} descriptors open before the history, {fds_after} after everything was dropped")));
    }
    alloc::CONSUMER_PHASE_HOLDS.store(true, std::sync::atomic::Ordering::SeqCst);
    rep.count("real_ring_polls", ring_polls);
    rep.count("real_ops_resolved", resolved);
    rep.count("real_ops_dropped_in_flight", dropped_in_flight);
    rep.count("real_ops_created", slots.len() as u64);
    for s in &slots {
        rep.cell(format!("real-kind:{:?}", s.kind));
    }
    for c in &chans {
        rep.cell(format!("real-chan:{:?}", c.kind));
    }
    rep.cell(if kernel_thread { "real-ring:kernel-thread" } else { "real-ring:default" });
    if std::env::var("VERIF_REAL_DEBUG").is_ok() {
        for m in crate::mon::logsink::take() {
            eprintln!("log: {m}");
        }
    } else {
        let _ = crate::mon::logsink::take();
    }
    *crate::sched::ON_STALL.lock().unwrap_or_else(|e| e.into_inner()) = None;
    let sig = fnv(0, trace.join(" ").as_bytes());
    let nontrivial = slots.len() >= 2 && resolved + dropped_in_flight >= 1;
    let sample = trace.iter().take(24).cloned().collect::<Vec<_>>().join(" ");
    rep.history(sig, nontrivial, || sample);
    for (prop, s, d) in found {
        viol(rep, seed, index, prop, s, d, &trace);
    }
}

pub fn run(seed: u64, start: u64, iters: u64, rep: &mut Report, kernel_thread: bool) {
    crate::sched::SPIN_LOCKS.store(true, std::sync::atomic::Ordering::SeqCst);
    for index in start..start + iters {
        super::guarded(rep, if kernel_thread { "realmixsq" } else { "realmix" }, "C01", seed, index, |rep| run_case(seed, index, rep, kernel_thread));
    }
    crate::sched::SPIN_LOCKS.store(false, std::sync::atomic::Ordering::SeqCst);
    // Later scenarios of this process (none today) would want the simulated kernel back.
    crate::simk::install();
}
