pub mod c10;
pub mod c04real;
pub mod c11real;
pub mod conform;
pub mod realmix;
pub mod c12;
pub mod c13;
pub mod c14;
pub mod c15;
pub mod c16;
pub mod c17;
pub mod real;
pub mod c18;
pub mod generic;
pub mod mt;

use crate::out::Report;

pub struct Args {
    pub seed: u64,
    pub iters: u64,
    pub start: u64,
    pub tier: String,
    pub params: Vec<(String, String)>,
}

impl Args {
    pub fn param(&self, k: &str) -> Option<&str> {
        self.params.iter().find(|(a, _)| a == k).map(|(_, v)| v.as_str())
    }
}

/// Last panic seen by the hook: (message, file, line).
static LAST_PANIC: std::sync::Mutex<Option<(String, String, u32)>> = std::sync::Mutex::new(None);

pub fn install_panic_hook() {
    std::panic::set_hook(Box::new(|info| {
        let _g = crate::mon::alloc::MonGuard::new();
        let msg = if let Some(s) = info.payload().downcast_ref::<&str>() {
            (*s).to_string()
        } else if let Some(s) = info.payload().downcast_ref::<String>() {
            s.clone()
        } else {
            "panic".to_string()
        };
        let (file, line) = info.location().map(|l| (l.file().to_string(), l.line())).unwrap_or_default();
        if std::env::var_os("VERIF_PANIC_TRACE").is_some() {
            eprintln!("panic at {file}:{line}: {msg}\n{}", std::backtrace::Backtrace::force_capture());
        }
        *LAST_PANIC.lock().unwrap_or_else(|e| e.into_inner()) = Some((msg, file, line));
    }));
}

/// Run one history, turning a panic inside a10 into a violation and a panic
/// inside the harness into an abort of the process (inconclusive).
pub fn guarded(rep: &mut Report, scenario: &str, default_prop: &str, seed: u64, index: u64, f: impl FnOnce(&mut Report)) {
    let r = std::panic::catch_unwind(std::panic::AssertUnwindSafe(|| f(rep)));
    if r.is_err() {
        let (msg, file, line) = LAST_PANIC.lock().unwrap_or_else(|e| e.into_inner()).take().unwrap_or_default();
        crate::mon::alloc::force_stop_tracking();
        let in_a10 = file.contains("/repo/src") || file.starts_with("src/io") || file.starts_with("src/lib") || file.starts_with("src/net") || file.starts_with("src/fs");
        if !in_a10 && !file.contains("/repo/") {
            eprintln!("HARNESS-PANIC scenario={scenario} seed={seed} index={index} at {file}:{line}: {msg}");
            std::process::exit(3);
        }
        let short = file.rsplit("/repo/").next().unwrap_or(&file).to_string();
        let prop = if short.ends_with("io_uring/sq.rs") {
            "C04"
        } else if short.ends_with("io_uring/cq.rs") {
            "C05"
        } else if short.ends_with("io/read_buf.rs") {
            "C15"
        } else {
            default_prop
        };
        rep.evaluations += 1;
        rep.violation(crate::out::ViolationOut {
            prop: prop.to_string(),
            sig: format!("panic:{short}:{line}"),
            detail: format!("a10 panicked at {short}:{line}: {msg}"),
            scenario: scenario.to_string(),
            seed,
            index,
            trace: Vec::new(),
        });
    }
}

fn gen_cfg(name: &str) -> Option<(generic::GenCfg, &'static str)> {
    use crate::ops::Kind_::*;
    let mut c = generic::GenCfg::base("generic");
    let prop = match name {
        "generic" | "selftest" => "C02",
        "c01" => {
            c.name = "c01";
            c.kinds = vec![
                Read, ReadAt, ReadVectored, ReadN, ReadPool, ReadPoolReuse, MultishotRead, Write, WriteArc, WriteExtract, WriteVectored, WriteAll,
                WriteAllVectored, Send, SendZc, SendTo, SendToZc, SendVectored, SendVectoredZc, SendAll, Recv, RecvPool, MultishotRecv,
                RecvVectored, RecvFrom, RecvN, Accept, Connect, Bind, SocketName, GetSockOpt, SetSockOpt, Open, CreateDir, Rename,
                RemoveFile, Metadata, Pipe, WaitId, ToDirect, MultishotAccept, AcceptNoAddr,
            ];
            c.w_drop = 160;
            c.w_complete = 220;
            "C01"
        }
        "c02" => {
            c.name = "c02";
            c.max_ops = 8;
            c.steps = 90;
            c.w_drop = 25;
            c.w_new = 160;
            c.w_complete = 300;
            c.w_ring_poll = 120;
            c.sq_sizes = vec![4, 8, 16];
            c.cq_sizes = vec![Some(2), Some(4), Some(16), None];
            "C02"
        }
        "c03" => {
            c.name = "c03";
            c.sq_sizes = vec![1, 2, 4];
            c.w_spurious_poll = 120;
            c.w_drop = 50;
            c.max_ops = 8;
            c.steps = 80;
            "C03"
        }
        "c05" => {
            c.name = "c05";
            c.w_bookkeeping = 160;
            c.p_wrap_start = 850;
            c.cq_sizes = vec![Some(2), Some(4), Some(8), Some(64), None];
            c.sq_sizes = vec![2, 4, 8];
            c.w_drop = 40;
            "C05"
        }
        "c06" => {
            c.name = "c06";
            c.w_drop = 220;
            c.w_new = 170;
            c.max_ops = 8;
            c.p_interrupt = 60;
            "C06"
        }
        "c07" => {
            c.name = "c07";
            c.kinds = vec![Socket, SocketDirect, Open, OpenDirect, OpenExtract, OpenDirectExtract, Accept, AcceptNoAddr, MultishotAccept, AcceptDirect, MultishotAcceptDirect, Pipe, PipeDirect, ToDirect, ToFile, Close, Read, Write, SyncAll];
            c.sq_sizes = vec![1, 2, 2, 4];
            c.w_drop = 140;
            c.w_drop_results = 120;
            c.w_new = 170;
            c.w_stdio = 25;
            c.max_ops = 8;
            c.steps = 80;
            c.p_interrupt = 40;
            "C07"
        }
        "c08" => {
            c.name = "c08";
            c.kinds = vec![ReadPool, ReadPool, ReadPoolReuse, MultishotRead, RecvPool, MultishotRecv, Read, Write];
            c.sq_sizes = vec![2, 4, 8];
            c.w_drop = 70;
            c.w_drop_results = 160;
            c.w_complete = 300;
            c.max_ops = 6;
            c.steps = 100;
            c.p_error = 60;
            c.p_interrupt = 40;
            "C08"
        }
        "c09" => {
            c.name = "c09";
            c.p_interrupt = 550;
            c.p_error = 80;
            c.w_drop = 20;
            c.sq_sizes = vec![1, 2, 8];
            "C09"
        }
        _ => return None,
    };
    Some((c, prop))
}

/// Run scenario `name`; returns None if unknown.
pub fn run(name: &str, args: &Args) -> Option<Report> {
    let mut rep = Report::new(name);
    if let Some((cfg, prop)) = gen_cfg(name) {
        for i in args.start..args.start + args.iters {
            guarded(&mut rep, name, prop, args.seed, i, |rep| generic::run_history(&cfg, args.seed, i, rep));
        }
        return Some(rep);
    }
    match name {
        "c14" => {
            // Pure code: a panic is a finding of C14.
            let (seed, start, iters) = (args.seed, args.start, args.iters);
            guarded(&mut rep, name, "C14", seed, start, |rep| c14::run(seed, start, iters, rep));
        }
        "conform" => conform::run(&mut rep, args.seed),
        "c11real" => c11real::run(args.seed, args.start, args.iters, &mut rep),
        "c04real" => c04real::run(args.seed, args.start, args.iters, &mut rep),
        "realmix" => realmix::run(args.seed, args.start, args.iters, &mut rep, false),
        "realmixsq" => realmix::run(args.seed, args.start, args.iters, &mut rep, true),
        "c15" => c15::run(args.seed, args.start, args.iters, &mut rep),
        "c18" => c18::run(args.seed, args.start, args.iters, &mut rep),
        "c12" => c12::run(args.seed, args.start, args.iters, &mut rep, false),
        "c16" => {
            let every: u64 = args.param("real_every").and_then(|c| c.parse().ok()).unwrap_or(20);
            let (seed, start, iters) = (args.seed, args.start, args.iters);
            guarded(&mut rep, name, "C16", seed, start, |rep| c16::run(seed, start, iters, every, rep));
        }
        "c17" => c17::run(args.seed, args.start, args.iters, &mut rep),
        "c13" => {
            let (seed, start, iters) = (args.seed, args.start, args.iters);
            guarded(&mut rep, name, "C13", seed, start, |rep| c13::run(seed, start, iters, rep));
        }
        "c13abi" => c13::abi_sweep::run(args.seed, args.start, args.iters, &mut rep),
        "c10" => c10::run(args.seed, args.start, args.iters, &mut rep, args.param("noexhaustive").is_none() && !cfg!(miri)),
        "c08wrap" => {
            for i in args.start..args.start + args.iters {
                let cycles: u64 = args.param("cycles").and_then(|c| c.parse().ok()).unwrap_or(70_000);
                guarded(&mut rep, name, "C08", args.seed, i, |rep| mt::c08_wrap_marathon(args.seed, i, cycles, rep));
            }
        }
        "c08mt" => {
            for i in args.start..args.start + args.iters {
                guarded(&mut rep, name, "C08", args.seed, i, |rep| mt::c08_release_schedule(args.seed, i, rep, false));
            }
        }
        "c11" => {
            for i in args.start..args.start + args.iters {
                guarded(&mut rep, name, "C11", args.seed, i, |rep| mt::c11_schedule(args.seed, i, rep, false));
            }
        }
        "c06mt" | "c06free" => {
            // Warm-up: lazily initialised process state must not count as a leak.
            let free = name == "c06free";
            for i in args.start..args.start + args.iters {
                guarded(&mut rep, name, "C06", args.seed, i, |rep| mt::c06_drop_schedule(args.seed, i, rep, free));
            }
        }
        "c04free" => {
            for i in args.start..args.start + args.iters {
                guarded(&mut rep, name, "C04", args.seed, i, |rep| mt::c04_schedule(args.seed, i, rep, true));
            }
        }
        "c08free" => {
            for i in args.start..args.start + args.iters {
                guarded(&mut rep, name, "C08", args.seed, i, |rep| mt::c08_release_schedule(args.seed, i, rep, true));
            }
        }
        "c11free" => {
            for i in args.start..args.start + args.iters {
                guarded(&mut rep, name, "C11", args.seed, i, |rep| mt::c11_schedule(args.seed, i, rep, true));
            }
        }
        "c04" => {
            if args.start == 0 {
                guarded(&mut rep, name, "C04", args.seed, 0, |rep| mt::c04_wrap_sweep(args.seed, rep));
            }
            for i in args.start..args.start + args.iters {
                guarded(&mut rep, name, "C04", args.seed, i, |rep| mt::c04_schedule(args.seed, i, rep, false));
            }
        }
        _ => return None,
    }
    Some(rep)
}
