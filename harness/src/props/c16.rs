//! C16: socket addresses round-trip through their kernel representation.

use std::mem::MaybeUninit;
use std::net::{Ipv4Addr, Ipv6Addr, SocketAddr, SocketAddrV4, SocketAddrV6};
use std::os::fd::{AsRawFd, FromRawFd, IntoRawFd};
use std::os::linux::net::SocketAddrExt;
use std::os::unix::net::SocketAddr as UnixAddr;

use a10::net::{Domain, SocketAddress, Type};

use super::real::{Real, Scratch};
use crate::out::{Report, ViolationOut};
use crate::rng::{Rng, fnv};

fn viol(rep: &mut Report, seed: u64, index: u64, sig: &str, detail: String) {
    rep.violation(ViolationOut { prop: "C16".into(), sig: sig.into(), detail, scenario: "c16".into(), seed, index, trace: Vec::new() });
}

/// storage -> kernel bytes (what a10 hands to the kernel) -> the bytes and
/// length the kernel reports back -> `init`.
fn round_trip<A: SocketAddress + Clone>(addr: &A, kernel_len: impl Fn(&[u8]) -> usize) -> (A, usize, usize)
where
    A::Storage: 'static,
{
    let storage = addr.clone().into_storage();
    let (ptr, len) = unsafe { A::as_ptr(&storage) };
    let bytes = unsafe { std::slice::from_raw_parts(ptr.cast::<u8>(), len as usize) }.to_vec();
    let klen = kernel_len(&bytes);
    let mut back: MaybeUninit<A::Storage> = MaybeUninit::uninit();
    let (mptr, mlen) = unsafe { A::as_mut_ptr(&mut back) };
    // The kernel never writes more than the capacity it was given.
    let n = klen.min(mlen as usize).min(bytes.len());
    unsafe { std::ptr::copy_nonoverlapping(bytes.as_ptr(), mptr.cast::<u8>(), n) };
    // Zero the rest like a kernel copying from a zeroed sockaddr would not: leave
    // recognisable garbage instead, `init` may only look at `klen` bytes.
    for i in n..mlen as usize {
        unsafe { mptr.cast::<u8>().add(i).write(0xA5) };
    }
    let out = unsafe { A::init(back, klen as u32) };
    (out, len as usize, klen)
}

fn pure_ip(seed: u64, index: u64, rng: &mut Rng, rep: &mut Report) {
    // IPv4.
    let ip = match rng.below(6) {
        0 => Ipv4Addr::new(0, 0, 0, 0),
        1 => Ipv4Addr::new(255, 255, 255, 255),
        2 => Ipv4Addr::new(127, 0, 0, 1),
        _ => Ipv4Addr::from(rng.next() as u32),
    };
    let port = match rng.below(5) {
        0 => 0,
        1 => 65535,
        2 => 0x0100,
        _ => rng.next() as u16,
    };
    let v4 = SocketAddrV4::new(ip, port);
    let (back, len, _) = round_trip(&v4, |_| 16);
    if back != v4 {
        viol(rep, seed, index, "ipv4-round-trip", format!("{v4} came back as {back}"));
    }
    if len != 16 {
        viol(rep, seed, index, "ipv4-length", format!("as_ptr length {len} for sockaddr_in (16)"));
    }
    rep.cell("pure:ipv4");
    // IPv6.
    let ip6 = match rng.below(5) {
        0 => Ipv6Addr::UNSPECIFIED,
        1 => Ipv6Addr::LOCALHOST,
        2 => Ipv6Addr::from(u128::MAX),
        _ => Ipv6Addr::from((u128::from(rng.next()) << 64) | u128::from(rng.next())),
    };
    let flow = match rng.below(4) {
        0 => 0,
        1 => u32::MAX,
        _ => rng.next() as u32,
    };
    let scope = match rng.below(4) {
        0 => 0,
        1 => u32::MAX,
        _ => rng.next() as u32,
    };
    let v6 = SocketAddrV6::new(ip6, port, flow, scope);
    let (back, len, _) = round_trip(&v6, |_| 28);
    if back != v6 {
        viol(rep, seed, index, "ipv6-round-trip", format!("{v6:?} came back as {back:?}"));
    }
    if len != 28 {
        viol(rep, seed, index, "ipv6-length", format!("as_ptr length {len} for sockaddr_in6 (28)"));
    }
    rep.cell("pure:ipv6");
    // Either family.
    for either in [SocketAddr::V4(v4), SocketAddr::V6(v6)] {
        let want = if either.is_ipv4() { 16 } else { 28 };
        let (back, len, _) = round_trip(&either, |_| want);
        if back != either {
            viol(rep, seed, index, "either-family-round-trip", format!("{either:?} came back as {back:?}"));
        }
        if len != want {
            viol(rep, seed, index, "either-family-length", format!("as_ptr length {len} for {either:?}, the structure for its family has {want} bytes"));
        }
        if Domain::for_address(&either) != if either.is_ipv4() { Domain::IPV4 } else { Domain::IPV6 } {
            viol(rep, seed, index, "either-family-domain", format!("wrong domain for {either:?}"));
        }
    }
    rep.cell("pure:either");
    rep.history(fnv(index, format!("{v4}{v6:?}").as_bytes()), true, || format!("pure {v4} {v6:?}"));
}

/// What the kernel reports for a Unix address it was given as `bytes`
/// (`sockaddr_un` with the full length): path names are NUL-terminated strings.
fn unix_kernel_len_path(bytes: &[u8]) -> usize {
    let path = &bytes[2..];
    let n = path.iter().position(|b| *b == 0).unwrap_or(path.len());
    2 + n + 1
}

fn pure_unix(seed: u64, index: u64, rng: &mut Rng, rep: &mut Report) {
    // Path names of every length, model of the kernel's answer.
    let len = 1 + (index % 107) as usize;
    let name: String = (0..len).map(|i| (b'a' + ((i as u64 + rng.below(26)) % 26) as u8) as char).collect();
    let addr = UnixAddr::from_pathname(&name).expect("pathname");
    let (back, _, klen) = round_trip(&addr, unix_kernel_len_path);
    if back.as_pathname() != addr.as_pathname() {
        viol(rep, seed, index, "unix-path-round-trip", format!("path name of {len} bytes came back as {back:?} (kernel length {klen}, i.e. including the terminating NUL)"));
    }
    // The kernel may also report the length without the NUL (name fills sun_path).
    let (back, _, _) = round_trip(&addr, |b| unix_kernel_len_path(b) - 1);
    if back.as_pathname() != addr.as_pathname() {
        viol(rep, seed, index, "unix-path-round-trip:no-nul", format!("path name of {len} bytes came back as {back:?}"));
    }
    rep.cell("pure:unix-path");
    // Unnamed.
    let unnamed = UnixAddr::from_pathname("").unwrap();
    let (back, _, _) = round_trip(&unnamed, |_| 2);
    if !back.is_unnamed() {
        viol(rep, seed, index, "unix-unnamed-round-trip", format!("unnamed came back as {back:?}"));
    }
    rep.cell("pure:unix-unnamed");
    rep.history(fnv(index, name.as_bytes()), true, || format!("pure unix path len={len}"));
}

fn real_unix(seed: u64, index: u64, real: &mut Real, rng: &mut Rng, rep: &mut Report) -> Result<(), super::real::Watchdog> {
    let sq = real.sq();
    // --- path name (relative, every length) bound through a10, read back through a10 and std.
    let len = 1 + (index % 107) as usize;
    let name: String = (0..len).map(|i| (b'a' + ((i as u64 + index) % 26) as u8) as char).collect();
    let _ = std::fs::remove_file(&name);
    let addr = UnixAddr::from_pathname(&name).expect("pathname");
    let sock = real.block_on(a10::net::socket(sq.clone(), Domain::UNIX, Type::DGRAM, None))?;
    let Ok(sock) = sock else { return Ok(()) };
    let bound = real.block_on(sock.bind(addr.clone()))?;
    if let Err(e) = bound {
        viol(rep, seed, index, "unix-path-bind-failed", format!("bind to a {len}-byte path failed: {e}"));
        return Ok(());
    }
    let a10_view = real.block_on(sock.local_addr::<UnixAddr>())?;
    let raw = sock.as_fd().unwrap().as_raw_fd();
    let std_sock = unsafe { std::os::unix::net::UnixDatagram::from_raw_fd(libc::dup(raw)) };
    let std_view = std_sock.local_addr().expect("getsockname");
    if std_view.as_pathname() != addr.as_pathname() {
        viol(rep, seed, index, "unix-path-bound-elsewhere", format!("bound {name:?} through a10, the kernel says {std_view:?}"));
    }
    match a10_view {
        Ok(a) if a.as_pathname() == addr.as_pathname() => {}
        Ok(a) => viol(rep, seed, index, "unix-path-round-trip", format!("bound to a {len}-byte path name, local_addr() returned {a:?} (std's getsockname: {std_view:?})")),
        Err(e) => viol(rep, seed, index, "unix-path-local-addr-failed", format!("{e}")),
    }
    // Datagram from this socket: recv_from must report the same address.
    let recv_name = format!("r{index}");
    let _ = std::fs::remove_file(&recv_name);
    if let Ok(receiver) = std::os::unix::net::UnixDatagram::bind(&recv_name) {
        if std_sock.send_to(b"hi", &recv_name).is_ok() {
            let rfd = unsafe { a10::AsyncFd::from_raw_fd(receiver.into_raw_fd(), sq.clone()) };
            let got = real.block_on(rfd.recv_from::<_, UnixAddr>(Vec::with_capacity(16)))?;
            match got {
                Ok((_, from, _)) if from.as_pathname() == addr.as_pathname() => {}
                Ok((_, from, _)) => viol(rep, seed, index, "unix-path-round-trip:recv_from", format!("datagram from {name:?} reported as coming from {from:?}")),
                Err(e) => viol(rep, seed, index, "unix-recv-from-failed", format!("{e}")),
            }
            rep.cell("real:unix-recv-from");
        }
        let _ = std::fs::remove_file(&recv_name);
    }
    drop(std_sock);
    drop(sock);
    let _ = std::fs::remove_file(&name);
    rep.cell("real:unix-path");
    // --- abstract names.
    let alen = (index % 40) as usize;
    let mut aname: Vec<u8> = format!("a10v-{}-{index}-", std::process::id()).into_bytes();
    for i in 0..alen {
        aname.push(match rng.below(8) {
            0 => 0,
            _ => b'A' + ((i as u64 + rng.below(26)) % 26) as u8,
        });
    }
    if rng.chance(1, 4) {
        aname.push(0); // Trailing NUL is part of an abstract name.
    }
    let aaddr = UnixAddr::from_abstract_name(&aname).expect("abstract");
    let sock = real.block_on(a10::net::socket(sq.clone(), Domain::UNIX, Type::DGRAM, None))?;
    let Ok(sock) = sock else { return Ok(()) };
    if real.block_on(sock.bind(aaddr.clone()))?.is_ok() {
        let raw = sock.as_fd().unwrap().as_raw_fd();
        let std_sock = unsafe { std::os::unix::net::UnixDatagram::from_raw_fd(libc::dup(raw)) };
        let std_view = std_sock.local_addr().expect("getsockname");
        if std_view.as_abstract_name() != Some(&aname[..]) {
            viol(rep, seed, index, "unix-abstract-name-padded", format!("bound abstract name of {} bytes through a10, the kernel bound a name of {} bytes (the whole sockaddr_un is passed as the address length)", aname.len(), std_view.as_abstract_name().map(|n| n.len()).unwrap_or(0)));
        }
        match real.block_on(sock.local_addr::<UnixAddr>())? {
            Ok(a) if a.as_abstract_name() == Some(&aname[..]) => {}
            Ok(a) => viol(rep, seed, index, "unix-abstract-round-trip", format!("abstract name of {} bytes came back with {} bytes", aname.len(), a.as_abstract_name().map(|n| n.len()).unwrap_or(0))),
            Err(e) => viol(rep, seed, index, "unix-abstract-local-addr-failed", format!("{e}")),
        }
        rep.cell("real:unix-abstract");
    }
    // --- unnamed.
    let sock = real.block_on(a10::net::socket(sq.clone(), Domain::UNIX, Type::DGRAM, None))?;
    if let Ok(sock) = sock {
        match real.block_on(sock.local_addr::<UnixAddr>())? {
            Ok(a) if a.is_unnamed() => {}
            Ok(a) => viol(rep, seed, index, "unix-unnamed-round-trip", format!("unbound socket reports {a:?}")),
            Err(e) => viol(rep, seed, index, "unix-unnamed-local-addr-failed", format!("{e}")),
        }
        rep.cell("real:unix-unnamed");
    }
    rep.history(fnv(index, &aname), true, || format!("real unix path-len={len} abstract-len={}", aname.len()));
    Ok(())
}

fn real_ip(seed: u64, index: u64, real: &mut Real, rng: &mut Rng, rep: &mut Report) -> Result<(), super::real::Watchdog> {
    let sq = real.sq();
    // IPv4 on an arbitrary loopback address, port chosen by the kernel.
    let ip = Ipv4Addr::new(127, rng.next() as u8, rng.next() as u8, 1 + (rng.next() % 254) as u8);
    let listener = real.block_on(a10::net::socket(sq.clone(), Domain::IPV4, Type::STREAM, None))?;
    let Ok(listener) = listener else { return Ok(()) };
    if real.block_on(listener.bind(SocketAddrV4::new(ip, 0)))?.is_err() {
        return Ok(());
    }
    let _ = real.block_on(listener.listen(8))?;
    let local = real.block_on(listener.local_addr::<SocketAddrV4>())?;
    let raw = listener.as_fd().unwrap().as_raw_fd();
    let std_l = unsafe { std::net::TcpListener::from_raw_fd(libc::dup(raw)) };
    let std_view = std_l.local_addr().expect("getsockname");
    match local {
        Ok(a) if SocketAddr::V4(a) == std_view && *a.ip() == ip => {}
        Ok(a) => viol(rep, seed, index, "ipv4-round-trip:real", format!("bound {ip}, a10 says {a}, kernel says {std_view}")),
        Err(e) => viol(rep, seed, index, "ipv4-local-addr-failed", format!("{e}")),
    }
    // Either-family type on the same socket.
    if let Ok(a) = real.block_on(listener.local_addr::<SocketAddr>())? {
        if a != std_view {
            viol(rep, seed, index, "either-family-round-trip:real", format!("a10 says {a}, kernel says {std_view}"));
        }
    }
    // Connect + accept: the accepted address is the client's local address.
    let client = std::net::TcpStream::connect(std_view);
    if let Ok(client) = client {
        let accepted = real.block_on(listener.accept::<SocketAddr>())?;
        match accepted {
            Ok((conn, addr)) => {
                if addr != client.local_addr().unwrap() {
                    viol(rep, seed, index, "accept-address", format!("accept reported {addr}, the client is {}", client.local_addr().unwrap()));
                }
                if let Ok(peer) = real.block_on(conn.peer_addr::<SocketAddrV4>())? {
                    if SocketAddr::V4(peer) != client.local_addr().unwrap() {
                        viol(rep, seed, index, "peer-address", format!("peer_addr {peer}, the client is {}", client.local_addr().unwrap()));
                    }
                }
                rep.cell("real:accept-peer");
            }
            Err(e) => viol(rep, seed, index, "accept-failed", format!("{e}")),
        }
    }
    rep.cell("real:ipv4");
    // IPv6 loopback (if available).
    if let Ok(Ok(s6)) = real.block_on(a10::net::socket(sq.clone(), Domain::IPV6, Type::DGRAM, None)) {
        if let Ok(Ok(())) = real.block_on(s6.bind(SocketAddrV6::new(Ipv6Addr::LOCALHOST, 0, 0, 0))) {
            let raw = s6.as_fd().unwrap().as_raw_fd();
            let std_s = unsafe { std::net::UdpSocket::from_raw_fd(libc::dup(raw)) };
            let std_view = std_s.local_addr().expect("getsockname");
            if let Ok(a) = real.block_on(s6.local_addr::<SocketAddrV6>())? {
                if SocketAddr::V6(a) != std_view {
                    viol(rep, seed, index, "ipv6-round-trip:real", format!("a10 says {a}, kernel says {std_view}"));
                }
            }
            // recv_from reports the sender.
            let sender = std::net::UdpSocket::bind("[::1]:0");
            if let Ok(sender) = sender {
                if sender.send_to(b"x", std_view).is_ok() {
                    if let Ok((_, from, _)) = real.block_on(s6.recv_from::<_, SocketAddr>(Vec::with_capacity(8)))? {
                        if from != sender.local_addr().unwrap() {
                            viol(rep, seed, index, "recv-from-address", format!("recv_from reported {from}, the sender is {}", sender.local_addr().unwrap()));
                        }
                    }
                }
            }
            rep.cell("real:ipv6");
        }
    }
    rep.history(fnv(index, &ip.octets()), true, || format!("real ip {ip}"));
    Ok(())
}

pub fn run(seed: u64, start: u64, iters: u64, real_every: u64, rep: &mut Report) {
    let scratch = Scratch::new("c16");
    std::env::set_current_dir(&scratch.path).expect("chdir scratch");
    // Miri has no io_uring system calls: only the pure part runs there.
    let mut real = if cfg!(miri) {
        None
    } else {
        match Real::new() {
            Ok(r) => Some(r),
            Err(e) => {
                rep.notes.push(format!("real io_uring unavailable: {e}"));
                None
            }
        }
    };
    for index in start..start + iters {
        let mut rng = Rng::derive(seed, 0xC16, index);
        pure_ip(seed, index, &mut rng, rep);
        pure_unix(seed, index, &mut rng, rep);
        if index % real_every == 0 {
            if let Some(r) = real.as_mut() {
                let a = real_unix(seed, index, r, &mut rng, rep);
                let b = real_ip(seed, index, r, &mut rng, rep);
                if a.is_err() || b.is_err() {
                    rep.notes.push("real-kernel watchdog expired".into());
                    eprintln!("HARNESS-PANIC scenario=c16 watchdog expired at index {index}");
                    std::process::exit(3);
                }
            }
        }
    }
    drop(real);
    drop(scratch);
    crate::simk::install();
}
