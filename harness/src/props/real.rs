//! E6 helpers: a10 on the real io_uring of this sandbox (no simulated kernel).

#![allow(dead_code)]

use std::future::Future;
use std::pin::Pin;
use std::task::{Context, Poll};
use std::time::{Duration, Instant};

use a10::Ring;

use crate::mon::waker::new_waker;

/// The real kernel did not answer in time: inconclusive, never a violation.
#[derive(Debug)]
pub struct Watchdog;

pub struct Real {
    pub ring: Ring,
}

impl Real {
    pub fn new() -> std::io::Result<Real> {
        crate::simk::uninstall();
        Ok(Real { ring: Ring::config().with_submission_queue_size(64).with_direct_descriptors(64).build()? })
    }

    pub fn sq(&self) -> a10::SubmissionQueue {
        self.ring.sq()
    }

    /// Drive `fut` to completion on the real ring.
    pub fn block_on<F: Future>(&mut self, fut: F) -> Result<F::Output, Watchdog> {
        let mut fut = Box::pin(fut);
        self.block_on_pinned(fut.as_mut())
    }

    pub fn block_on_pinned<F: Future>(&mut self, mut fut: Pin<&mut F>) -> Result<F::Output, Watchdog> {
        let (waker, _ws) = new_waker();
        let mut cx = Context::from_waker(&waker);
        let start = Instant::now();
        loop {
            if let Poll::Ready(out) = fut.as_mut().poll(&mut cx) {
                return Ok(out);
            }
            let _ = self.ring.poll(Some(Duration::from_millis(20)));
            if start.elapsed() > Duration::from_secs(20) {
                return Err(Watchdog);
            }
        }
    }
}

/// A scratch directory outside /repo and /verif, removed on drop.
pub struct Scratch {
    pub path: std::path::PathBuf,
}

impl Scratch {
    pub fn new(tag: &str) -> Scratch {
        let base = std::env::var("VERIF_SCRATCH").unwrap_or_else(|_| "/tmp".to_string());
        let path = std::path::PathBuf::from(format!("{base}/a10v-{tag}-{}", std::process::id()));
        let _ = std::fs::remove_dir_all(&path);
        std::fs::create_dir_all(&path).expect("scratch dir");
        Scratch { path }
    }
}

impl Drop for Scratch {
    fn drop(&mut self) {
        let _ = std::env::set_current_dir("/");
        let _ = std::fs::remove_dir_all(&self.path);
    }
}
