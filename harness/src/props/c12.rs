//! C12: teardown in any order is safe and releases everything.
//!
//! Enumerates permutations of dropping {Ring, queue clones, descriptors,
//! operations in various states, pool, pool buffer} on the simulated kernel and
//! checks the mapping, descriptor, allocation and kernel-table ledgers.

use std::task::{Context, Poll};
use std::time::Duration;

use a10::io::{ReadBuf, ReadBufPool};
use a10::{AsyncFd, Ring, SubmissionQueue};

use crate::mon::alloc;
use crate::mon::fds;
use crate::mon::waker::new_waker;
use crate::ops::{DynOp, Outcome, fut_op};
use crate::out::{Report, ViolationOut};
use crate::rng::{Rng, fnv};
use crate::simk::abi::*;
use crate::simk::{self, ReqState, effects, enter};

#[derive(Copy, Clone, Debug, PartialEq, Eq, Hash)]
pub enum Obj {
    Ring,
    Sq1,
    Sq2,
    Fd,
    DirectFd,
    /// Operation with its own queue handle, never polled.
    OpFresh,
    /// Operation with its own queue handle, queued but not consumed by the kernel.
    OpQueued,
    /// Operation with its own queue handle, in flight in the kernel.
    OpInFlight,
    /// Multishot operation on `Fd`, mid-stream (must be dropped before `Fd`).
    OpMultiOnFd,
    /// Finished (resolved) operation that is still alive.
    OpFinished,
    Pool,
    ReadBuf,
}

pub const SETS: &[&[Obj]] = &[
    &[Obj::Ring, Obj::Sq1, Obj::Fd, Obj::OpQueued, Obj::OpInFlight, Obj::ReadBuf],
    &[Obj::Ring, Obj::Sq1, Obj::Sq2, Obj::Fd, Obj::DirectFd, Obj::OpFresh, Obj::OpFinished],
    &[Obj::Ring, Obj::Fd, Obj::OpMultiOnFd, Obj::Pool, Obj::ReadBuf, Obj::OpInFlight, Obj::DirectFd],
    &[Obj::Ring, Obj::Sq1, Obj::Pool, Obj::ReadBuf, Obj::OpQueued, Obj::OpFresh, Obj::OpFinished],
];

fn nth_permutation(n: usize, mut k: u64) -> Vec<usize> {
    let mut items: Vec<usize> = (0..n).collect();
    let mut out = Vec::with_capacity(n);
    let mut fact: Vec<u64> = vec![1; n + 1];
    for i in 1..=n {
        fact[i] = fact[i - 1] * i as u64;
    }
    for i in (0..n).rev() {
        let f = fact[i];
        let idx = (k / f) as usize;
        k %= f;
        out.push(items.remove(idx));
    }
    out
}

pub fn permutations_of(set: usize) -> u64 {
    (1..=SETS[set].len() as u64).product()
}

/// Modes: 0 the final sync-cancel cancels everything, 1 one request completes
/// normally first, 2 as 0 but the completion queue is already full of
/// (wake-up) completions when the drops start, so that the final completions
/// only become visible after a10 has made room, 3 as 0 but the submission queue
/// is full of unsubmitted entries whenever an object is dropped (clean-up
/// requests such as the close of a descriptor find no room).
pub const MODES: u64 = 4;

/// Total enumerated space: every set x every permutation x mode.
pub fn total() -> u64 {
    (0..SETS.len()).map(|s| permutations_of(s) * MODES).sum()
}

fn decode(mut index: u64) -> Option<(usize, u64, u32)> {
    for s in 0..SETS.len() {
        let n = permutations_of(s) * MODES;
        if index < n {
            return Some((s, index / MODES, (index % MODES) as u32));
        }
        index -= n;
    }
    None
}

struct Objects {
    ring: Option<Ring>,
    sq1: Option<SubmissionQueue>,
    sq2: Option<SubmissionQueue>,
    fd: Option<Box<AsyncFd>>,
    dfd: Option<AsyncFd>,
    op_fresh: Option<Box<dyn DynOp>>,
    op_queued: Option<Box<dyn DynOp>>,
    op_inflight: Option<Box<dyn DynOp>>,
    op_multi: Option<Box<dyn DynOp>>,
    op_finished: Option<Box<dyn DynOp>>,
    pool: Option<ReadBufPool>,
    rbuf: Option<ReadBuf>,
}

fn viol(rep: &mut Report, seed: u64, index: u64, sig: String, detail: String, desc: &str, trace: &[String]) {
    rep.violation(ViolationOut { prop: "C12".into(), sig, detail: format!("{detail} [{desc}]"), scenario: "c12".into(), seed, index, trace: trace.to_vec() });
}

fn socket_op(sq: &SubmissionQueue) -> Box<dyn DynOp> {
    let sq = sq.clone();
    alloc::a10(|| {
        fut_op(a10::net::socket(sq, a10::net::Domain::IPV4, a10::net::Type::STREAM, None), |r: std::io::Result<AsyncFd>| match r {
            Ok(fd) => {
                let mut o = Outcome::ok(0);
                o.afds.push(fd);
                o
            }
            Err(e) => Outcome::err(&e),
        })
    })
}

fn run_case(seed: u64, index: u64, set: usize, perm: u64, mode: u32, rep: &mut Report, judged: bool) {
    let objs = SETS[set];
    let order: Vec<Obj> = nth_permutation(objs.len(), perm).into_iter().map(|i| objs[i]).collect();
    // Safe Rust cannot drop a descriptor before an operation borrowing it.
    if let (Some(f), Some(m)) = (order.iter().position(|o| *o == Obj::Fd), order.iter().position(|o| *o == Obj::OpMultiOnFd)) {
        if f < m {
            rep.cell("skipped:borrow-order");
            return;
        }
    }
    let desc = format!("set={set} mode={mode} order={order:?}");
    let mut trace: Vec<String> = Vec::new();
    simk::reset(seed ^ index);
    alloc::CONSUMER_PHASE_HOLDS.store(false, std::sync::atomic::Ordering::SeqCst);
    alloc::start_tracking();
    {
        let mut k = simk::k();
        k.knobs.layout_seed = (seed ^ index) | 1;
        // How many in-flight requests complete normally instead of being cancelled
        // by the ring's final sync cancel.
        k.knobs.sync_cancel_normal = if mode == 1 { 1 } else { 0 };
        k.knobs.sq_start = 0u32.wrapping_sub((index % 5) as u32);
    }
    let has = |o: Obj| objs.contains(&o);
    let mut ring = alloc::a10(|| Ring::config().with_submission_queue_size(8).with_direct_descriptors(4).build()).expect("ring");
    let ring_fd = simk::k().only_ring_fd();
    let sq = ring.sq();
    let (waker, _ws) = new_waker();
    let mut cx = Context::from_waker(&waker);
    let mut o = Objects { ring: None, sq1: None, sq2: None, fd: None, dfd: None, op_fresh: None, op_queued: None, op_inflight: None, op_multi: None, op_finished: None, pool: None, rbuf: None };
    let raw = fds::issue("owned-fd");
    let afd = Box::new(unsafe { AsyncFd::from_raw_fd(raw, sq.clone()) });
    let fdref: &'static AsyncFd = unsafe { &*std::ptr::from_ref(&*afd) };
    let step = |ring: &mut Ring| {
        let _ = alloc::consumer(|| ring.poll(Some(Duration::ZERO)));
    };
    // --- set up the objects in the required states.
    if has(Obj::DirectFd) {
        let mut op = alloc::a10(|| fut_op(fdref.to_direct_descriptor(), |r: std::io::Result<AsyncFd>| match r {
            Ok(fd) => {
                let mut o = Outcome::ok(0);
                o.afds.push(fd);
                o
            }
            Err(e) => Outcome::err(&e),
        }));
        let _ = alloc::a10(|| op.poll(&mut cx));
        step(&mut ring);
        let id = *simk::k().inflight_of(ring_fd).last().expect("to_direct in flight");
        effects::complete(&mut simk::k(), id, 1, false);
        step(&mut ring);
        match alloc::a10(|| op.poll(&mut cx)) {
            Poll::Ready(mut out) => o.dfd = out.afds.pop(),
            Poll::Pending => panic!("c12: to_direct did not resolve"),
        }
        alloc::a10(|| drop(op));
    }
    if has(Obj::Pool) || has(Obj::ReadBuf) {
        let pool = alloc::a10(|| ReadBufPool::new(sq.clone(), 2, 32)).expect("pool");
        if has(Obj::ReadBuf) {
            let mut op = alloc::a10(|| fut_op(fdref.read(pool.get()), |r: std::io::Result<ReadBuf>| match r {
                Ok(b) => {
                    let mut o = Outcome::ok(0);
                    o.rbufs.push(b);
                    o
                }
                Err(e) => Outcome::err(&e),
            }));
            let _ = alloc::a10(|| op.poll(&mut cx));
            step(&mut ring);
            let id = *simk::k().inflight_of(ring_fd).last().expect("pool read in flight");
            effects::complete(&mut simk::k(), id, 20, false);
            step(&mut ring);
            match alloc::a10(|| op.poll(&mut cx)) {
                Poll::Ready(mut out) => o.rbuf = out.rbufs.pop(),
                Poll::Pending => panic!("c12: pool read did not resolve"),
            }
            alloc::a10(|| drop(op));
        }
        if has(Obj::Pool) {
            o.pool = Some(pool);
        } else {
            alloc::a10(|| drop(pool));
        }
    }
    if has(Obj::OpFinished) {
        let mut op = socket_op(&sq);
        let _ = alloc::a10(|| op.poll(&mut cx));
        step(&mut ring);
        let id = *simk::k().inflight_of(ring_fd).last().expect("socket in flight");
        effects::complete(&mut simk::k(), id, -libc::EACCES, false);
        step(&mut ring);
        match alloc::a10(|| op.poll(&mut cx)) {
            Poll::Ready(_) => {}
            Poll::Pending => panic!("c12: socket did not resolve"),
        }
        o.op_finished = Some(op);
    }
    if has(Obj::OpMultiOnFd) {
        let mut op = alloc::a10(|| crate::ops::iter_op(fdref.multishot_accept(), |it, cx| it.poll_next(cx), |r: std::io::Result<AsyncFd>| match r {
            Ok(fd) => {
                let mut o = Outcome::ok(0);
                o.afds.push(fd);
                o
            }
            Err(e) => Outcome::err(&e),
        }));
        let _ = alloc::a10(|| op.poll(&mut cx));
        step(&mut ring);
        let id = *simk::k().inflight_of(ring_fd).last().expect("multishot in flight");
        effects::complete(&mut simk::k(), id, 0, true);
        step(&mut ring);
        // One item consumed, stream still armed.
        if let Poll::Ready(out) = alloc::a10(|| op.poll(&mut cx)) {
            alloc::a10(|| drop(out));
        }
        o.op_multi = Some(op);
    }
    if has(Obj::OpInFlight) {
        let mut op = socket_op(&sq);
        let _ = alloc::a10(|| op.poll(&mut cx));
        step(&mut ring);
        o.op_inflight = Some(op);
    }
    if has(Obj::OpFresh) {
        o.op_fresh = Some(socket_op(&sq));
    }
    if has(Obj::Sq1) {
        o.sq1 = Some(sq.clone());
    }
    if has(Obj::Sq2) {
        o.sq2 = Some(sq.clone());
    }
    if has(Obj::OpQueued) {
        // Queued last: nothing enters the kernel between this and the drops.
        let mut op = socket_op(&sq);
        let _ = alloc::a10(|| op.poll(&mut cx));
        o.op_queued = Some(op);
    }
    if has(Obj::Fd) {
        o.fd = Some(afd);
    } else {
        alloc::a10(|| drop(afd));
        step(&mut ring);
    }
    alloc::a10(|| drop(sq));
    if mode == 2 {
        // More wake-up completions than the completion queue holds: the kernel keeps the rest
        // (and everything posted later, e.g. the final completions of cancelled requests)
        // until a10 has consumed a batch and enters again.
        let mut k = simk::k();
        let n = k.rings[&ring_fd].cq_entries + 3;
        for _ in 0..n {
            effects::post_raw(&mut k, ring_fd, simk::Cqe { user_data: 1, res: 0, flags: 0 });
        }
        trace.push(format!("cq-overflow:{n}-wakeups"));
    }
    o.ring = Some(ring);
    // --- drop in the given order.
    let mut ring_dropped = false;
    let mut fd_dropped_after_ring = false;
    let mut dfd_dropped_after_ring = false;
    let mut fillers: Vec<Box<dyn DynOp>> = Vec::new();
    for obj in &order {
        if mode == 3 && !ring_dropped {
            // Fill the submission queue; nobody enters the kernel between this and the drop.
            let handle = o.ring.as_ref().map(|r| r.sq());
            if let Some(handle) = handle {
                for _ in 0..16 {
                    let queued = enter::peek_sq(&mut simk::k(), ring_fd).len();
                    if queued >= 8 {
                        break;
                    }
                    let mut op = socket_op(&handle);
                    let _ = alloc::a10(|| op.poll(&mut cx));
                    fillers.push(op);
                }
                alloc::a10(|| drop(handle));
                trace.push(format!("sq-full:{}", enter::peek_sq(&mut simk::k(), ring_fd).len()));
            }
        }
        trace.push(format!("drop:{obj:?}"));
        match obj {
            Obj::Ring => {
                let r = o.ring.take();
                alloc::consumer(|| drop(r));
                ring_dropped = true;
                // Everything that was queued or running must be gone now.
                let mut k = simk::k();
                k.sync_fd_events();
                if k.rings.contains_key(&ring_fd) {
                    let left = k.inflight_of(ring_fd);
                    let unsub = enter::peek_sq(&mut k, ring_fd).len();
                    drop(k);
                    if !left.is_empty() {
                        viol(rep, seed, index, "requests-in-flight-after-ring-drop".into(), format!("{} request(s) still in flight after Ring's drop returned", left.len()), &desc, &trace);
                    }
                    if unsub != 0 {
                        viol(rep, seed, index, "queued-requests-not-flushed-at-ring-drop".into(), format!("{unsub} queued submission(s) were not handed to the kernel when the Ring was dropped"), &desc, &trace);
                    }
                }
            }
            Obj::Sq1 => alloc::a10(|| drop(o.sq1.take())),
            Obj::Sq2 => alloc::a10(|| drop(o.sq2.take())),
            Obj::Fd => {
                fd_dropped_after_ring = ring_dropped;
                alloc::a10(|| drop(o.fd.take()));
            }
            Obj::DirectFd => {
                dfd_dropped_after_ring = ring_dropped;
                alloc::a10(|| drop(o.dfd.take()));
                if let Some(r) = o.ring.as_mut() {
                    // A poll that finds completions ready does not enter the kernel, the
                    // queued close is handed over by the next one that does.
                    for _ in 0..3 {
                        let _ = alloc::consumer(|| r.poll(Some(Duration::ZERO)));
                    }
                }
                let mut k = simk::k();
                k.sync_fd_events();
                if k.rings.contains_key(&ring_fd) {
                    let open: Vec<u64> = k.direct_files.iter().filter(|(_, o)| **o).map(|(d, _)| *d).collect();
                    drop(k);
                    if !open.is_empty() {
                        let when = if ring_dropped { "after-ring" } else { "before-ring" };
                        viol(rep, seed, index, format!("direct-descriptor-not-closed:dropped-{when}"), format!("the direct AsyncFd was dropped ({when} was dropped, other handles keep the io_uring alive) but its slot is still installed"), &desc, &trace);
                    }
                }
            }
            Obj::OpFresh => alloc::a10(|| drop(o.op_fresh.take())),
            Obj::OpQueued => alloc::a10(|| drop(o.op_queued.take())),
            Obj::OpInFlight => alloc::a10(|| drop(o.op_inflight.take())),
            Obj::OpMultiOnFd => alloc::a10(|| drop(o.op_multi.take())),
            Obj::OpFinished => alloc::a10(|| drop(o.op_finished.take())),
            Obj::Pool => alloc::a10(|| drop(o.pool.take())),
            Obj::ReadBuf => alloc::a10(|| drop(o.rbuf.take())),
        }
        // While the ring lives it keeps being polled.
        if let Some(r) = o.ring.as_mut() {
            let _ = alloc::consumer(|| r.poll(Some(Duration::ZERO)));
        }
        if alloc::pending_violations() > 0 {
            break;
        }
    }
    if alloc::pending_violations() == 0 {
        alloc::a10(|| drop(fillers));
    } else {
        std::mem::forget(fillers);
    }
    // --- ledgers.
    let mut poisoned = false;
    for v in alloc::take_violations() {
        poisoned = true;
        let what = alloc::what::name(v.what);
        let sig = match v.kind {
            alloc::V_FREE_WHILE_HELD => format!("free-while-kernel-held:{what}"),
            alloc::V_DOUBLE_FREE => "double-free".to_string(),
            _ => "write-after-free".to_string(),
        };
        viol(rep, seed, index, sig, format!("{v:?}"), &desc, &trace);
    }
    if poisoned {
        std::mem::forget(o);
        alloc::force_stop_tracking();
        alloc::CONSUMER_PHASE_HOLDS.store(true, std::sync::atomic::Ordering::SeqCst);
        rep.evaluations += 1;
        return;
    }
    simk::k().sync_fd_events();
    for v in simk::k().take_violations() {
        if v.prop == "BLOCK" {
            continue;
        }
        viol(rep, seed, index, v.sig, v.detail, &desc, &trace);
    }
    let maps = simk::k().mapping_leaks();
    if !maps.is_empty() {
        viol(rep, seed, index, "mapping-leak".into(), format!("{maps:?}"), &desc, &trace);
    }
    for v in fds::take_violations() {
        viol(rep, seed, index, v.sig, v.detail, &desc, &trace);
    }
    for (fd, what) in fds::open_fds() {
        let (prop, sig) = match what {
            "ring" => ("C12", "ring-fd-never-closed".to_string()),
            "owned-fd" if fd_dropped_after_ring => ("C12", "fd-leak:asyncfd-dropped-after-ring".to_string()),
            "owned-fd" => ("C12", "fd-leak:asyncfd".to_string()),
            // Descriptors in results nobody collected: C07's business (D5).
            "socket" => ("C07", "fd-leak-uncollected-op:SOCKET".to_string()),
            "accept" => ("C07", "fd-leak-abandoned-op:ACCEPT".to_string()),
            other => ("C12", format!("fd-leak:{other}")),
        };
        rep.violation(ViolationOut { prop: prop.into(), sig, detail: format!("descriptor {fd} ({what}) still open after everything was dropped [{desc}]"), scenario: "c12".into(), seed, index, trace: trace.clone() });
    }
    let _ = dfd_dropped_after_ring;
    {
        let k = simk::k();
        for r in k.rings.values().chain(k.dead_rings.iter()) {
            if !r.dead && !r.pbufs.is_empty() {
                drop(k);
                viol(rep, seed, index, "buffer-ring-still-registered".into(), "a ReadBufPool registration outlived all handles".into(), &desc, &trace);
                break;
            }
        }
    }
    for m in crate::mon::logsink::take() {
        if m.contains("error unmapping") || m.contains("unexpected completion") {
            viol(rep, seed, index, "a10-warning".into(), m, &desc, &trace);
        }
    }
    let leaks = alloc::end_tracking();
    if !leaks.is_empty() && judged {
        viol(rep, seed, index, "allocation-leak".into(), format!("{} block(s) allocated inside a10 still live after everything was dropped (sizes {:?})", leaks.len(), leaks.iter().map(|l| l.size).take(6).collect::<Vec<_>>()), &desc, &trace);
    }
    alloc::CONSUMER_PHASE_HOLDS.store(true, std::sync::atomic::Ordering::SeqCst);
    rep.cell(format!("set:{set}"));
    rep.cell(format!("first:{:?}", order[0]));
    rep.cell(format!("ring-position:{}", order.iter().position(|x| *x == Obj::Ring).unwrap()));
    rep.cell(format!("sync-cancel-mode:{mode}"));
    rep.absorb_counters();
    rep.history(fnv(0, desc.as_bytes()), true, || desc.clone());
}

pub fn run(seed: u64, start: u64, iters: u64, rep: &mut Report, random_larger: bool) {
    let total = total();
    {
        let mut scratch = Report::new("warmup");
        super::guarded(&mut scratch, "c12", "C12", seed, u64::MAX, |r| run_case(seed, u64::MAX, 0, 0, 0, r, false));
    }
    for index in start..(start + iters).min(total) {
        if let Some((set, perm, mode)) = decode(index) {
            super::guarded(rep, "c12", "C12", seed, index, |rep| run_case(seed, index, set, perm, mode, rep, true));
        }
    }
    let _ = (random_larger, Rng::new(1));
    rep.exhaustive = true;
    rep.counters.insert("teardown_space_total".into(), total);
}
