//! E1: the single-threaded, deterministic history explorer.
//!
//! A history is a random interleaving of user-side actions {create op, poll,
//! re-poll with the same/a new waker, drop, Ring::poll, drop results} with
//! kernel-side actions {post first/next/last completion of a request with any
//! result, cancel wins/loses, bookkeeping completions}, run against the real
//! a10 on the simulated kernel, judged by the boundary oracles of `World`.

use std::task::Poll;

use crate::mon::alloc;
use crate::ops::{Class, Kind_, Outcome};
use crate::out::{Report, ViolationOut};
use crate::rng::Rng;
use crate::simk::abi::*;
use crate::simk::{self, CancelOutcome, Cqe, ReqState, effects};
use crate::world::{SlotState, World, WorldCfg, errno_pool};

#[derive(Clone)]
pub struct GenCfg {
    pub name: &'static str,
    pub kinds: Vec<Kind_>,
    pub max_ops: usize,
    pub steps: usize,
    pub sq_sizes: Vec<u32>,
    pub cq_sizes: Vec<Option<u32>>,
    /// Probability (per mille) weights of actions.
    pub w_new: u64,
    pub w_poll: u64,
    pub w_spurious_poll: u64,
    pub w_drop: u64,
    pub w_ring_poll: u64,
    pub w_complete: u64,
    pub w_bookkeeping: u64,
    pub w_drop_results: u64,
    /// Per mille chance a completion is EINTR/ECANCELED.
    pub p_interrupt: u64,
    pub p_error: u64,
    pub p_short: u64,
    /// Counters start near the wrap in this fraction (per mille) of histories.
    pub p_wrap_start: u64,
    pub randomize_layout: bool,
    /// Which cancel outcomes to script.
    pub cancel_mix: bool,
    pub leak_check: bool,
    pub keep_results: bool,
    /// Per mille weight of creating and dropping a standard-stream handle.
    pub w_stdio: u64,
}

impl GenCfg {
    pub fn base(name: &'static str) -> GenCfg {
        GenCfg {
            name,
            kinds: crate::ops::ALL_KINDS.to_vec(),
            max_ops: 6,
            steps: 60,
            sq_sizes: vec![1, 2, 4, 8],
            cq_sizes: vec![None, None, Some(2), Some(4), Some(16)],
            w_new: 120,
            w_poll: 250,
            w_spurious_poll: 40,
            w_drop: 90,
            w_ring_poll: 180,
            w_complete: 250,
            w_bookkeeping: 30,
            w_drop_results: 40,
            p_interrupt: 120,
            p_error: 150,
            p_short: 250,
            p_wrap_start: 300,
            randomize_layout: true,
            cancel_mix: true,
            leak_check: true,
            keep_results: true,
            w_stdio: 0,
        }
    }
}

pub const BOOKKEEPING_RES_BASE: i32 = 0x5EED_0000;

/// What the kernel's log says op slot `i` should observe next.
fn expected_cqes(w: &World, i: usize) -> (Vec<(Cqe, Vec<u8>, u64, Vec<(i32, bool)>)>, bool, bool) {
    // Returns: all result-bearing completions in order (restart terminals and
    // zero-copy notifications removed), whether the last request is done, and
    // whether any request exists.
    let id = w.slots[i].id;
    let k = simk::k();
    let mut reqs: Vec<&simk::Req> = k.reqs.values().filter(|r| r.owner == id).collect();
    reqs.sort_by_key(|r| r.id);
    let mut out = Vec::new();
    let n = reqs.len();
    for (ri, r) in reqs.iter().enumerate() {
        let mut created = r.created.clone();
        for (ci, c) in r.posted.iter().enumerate() {
            if c.flags & CQE_F_NOTIF != 0 {
                continue;
            }
            let is_last_cqe = ci + 1 == r.posted.len() || r.posted[ci + 1..].iter().all(|c| c.flags & CQE_F_NOTIF != 0);
            let restart = (c.flags & CQE_F_MORE == 0 || r.zc) && (c.res == -libc::EINTR || c.res == -libc::ECANCELED) && is_last_cqe && ri + 1 < n;
            if restart {
                continue;
            }
            let mut fds = Vec::new();
            if c.res >= 0 && !created.is_empty() {
                let take = if r.sqe.opcode() == OP_PIPE { 2 } else { 1 };
                for _ in 0..take.min(created.len()) {
                    fds.push(created.remove(0));
                }
            }
            out.push((*c, r.produced.get(ci).cloned().unwrap_or_default(), r.id, fds));
        }
    }
    let done = reqs.last().map(|r| r.state == ReqState::Done).unwrap_or(false);
    (out, done, n > 0)
}

/// C02/C09 oracle for a value an operation resolved with.
pub fn check_outcome(w: &mut World, i: usize, o: &Outcome) {
    let kind = w.slots[i].kind;
    let id = w.slots[i].id;
    let class = kind.class();
    if class == Class::Composite {
        return; // Judged by C10.
    }
    let (cqes, last_done, any) = expected_cqes(w, i);
    if !any {
        w.violation("C02", "result-without-submission", format!("op #{id} ({kind:?}) resolved with {} but the kernel never saw a submission for it", o.brief()));
        return;
    }
    let idx = if class == Class::Multi { w.slots[i].outcomes.len() - 1 } else { 0 };
    if class == Class::Multi && o.end {
        if !last_done {
            w.violation("C02", "multishot-ended-before-final-completion", format!("op #{id} ({kind:?}) returned None but the kernel has not posted the final completion"));
        }
        // The stream may only end on a final completion that is not an interruption: after
        // EINTR/ECANCELED (the caller did not drop it) the operation has to be issued again.
        if let Some((last, ..)) = cqes.last() {
            if last_done && (last.res == -libc::EINTR || last.res == -libc::ECANCELED) {
                w.violation("C09", "interruption-ended-multishot-stream", format!("op #{id} ({kind:?}) returned None after the kernel ended it with errno {}: it was neither re-issued nor reported", -last.res));
            }
        }
        let yielded = w.slots[i].items;
        if yielded != cqes.len() {
            w.violation("C02", "multishot-item-count", format!("op #{id} ({kind:?}) ended after {yielded} items, the kernel posted {} results", cqes.len()));
        }
        return;
    }
    if class != Class::Multi && !last_done {
        let two = if class == Class::TwoStep { "two-step-" } else { "" };
        w.violation("C02", format!("{two}resolved-before-final-completion"), format!("op #{id} ({kind:?}) resolved with {} before the kernel posted its final completion", o.brief()));
    }
    let pick = if class == Class::Multi { cqes.get(idx) } else { cqes.last() };
    let Some((cqe, produced, _rid, fds)) = pick else {
        w.violation("C02", "extra-result", format!("op #{id} ({kind:?}) produced result #{idx} ({}) but the kernel posted only {} results", o.brief(), cqes.len()));
        return;
    };
    if matches!(o.res, Ok(v) if v == i64::from(crate::simk::enter::TRAP_RES)) {
        w.violation("C05", "trap-entry-interpreted", format!("op #{id} ({kind:?}) resolved with the poison value of a completion-queue slot the kernel had not published (or that a10 had already given back)"));
        w.poisoned = true;
        return;
    }
    if cqe.res == BOOKKEEPING_RES_BASE || matches!(o.res, Ok(v) if v == i64::from(BOOKKEEPING_RES_BASE)) {
        w.violation("C05", "bookkeeping-completion-delivered-to-op", format!("op #{id} ({kind:?}) observed the result of an injected bookkeeping/skip completion"));
        return;
    }
    if cqe.res < 0 {
        let e = -cqe.res;
        if (e == libc::EINTR || e == libc::ECANCELED) && matches!(o.res, Err(x) if x == e) {
            w.violation("C09", format!("interruption-observed:{}", if e == libc::EINTR { "EINTR" } else { "ECANCELED" }), format!("op #{id} ({kind:?}) was not dropped but resolved with errno {e}"));
            return;
        }
        match o.res {
            Err(x) if x == e => {}
            _ => w.violation("C02", "wrong-result:error", format!("op #{id} ({kind:?}) result #{idx}: kernel posted errno {e}, op resolved with {}", o.brief())),
        }
        return;
    }
    // Success.
    let Ok(val) = o.res else {
        w.violation("C02", "wrong-result:ok-as-error", format!("op #{id} ({kind:?}) result #{idx}: kernel posted {}, op resolved with {}", cqe.res, o.brief()));
        return;
    };
    if kind.creates_fd() {
        let want_direct = matches!(kind, Kind_::SocketDirect | Kind_::OpenDirect | Kind_::OpenDirectExtract | Kind_::PipeDirect | Kind_::ToDirect | Kind_::AcceptDirect | Kind_::MultishotAcceptDirect);
        let nums: Vec<i64> = o.afds.iter().map(crate::ops::raw_of).collect();
        let exp: Vec<i64> = fds.iter().map(|f| i64::from(f.0)).collect();
        if nums != exp {
            w.violation("C02", "wrong-result:descriptor", format!("op #{id} ({kind:?}): kernel created descriptors {exp:?}, op returned {nums:?}"));
        }
        for (n, a) in o.afds.iter().enumerate() {
            let is_direct = a.kind() == a10::fd::Kind::Direct;
            // What the caller asked for, and what the kernel really created.
            if let Some(f) = fds.get(n) {
                if f.1 != want_direct {
                    w.violation("C07", "descriptor-created-as-wrong-kind", format!("op #{id} ({kind:?}) asked the kernel for a {} descriptor, the caller asked for a {} one", if f.1 { "direct" } else { "regular" }, if want_direct { "direct" } else { "regular" }));
                }
            }
            if is_direct != want_direct {
                w.violation("C07", "descriptor-wrong-kind", format!("op #{id} ({kind:?}) returned a descriptor of kind {:?}", a.kind()));
            }
        }
        if kind == Kind_::Accept {
            // The peer address the kernel wrote for this very completion.
            let want = sockaddr_text(&effects::default_sockaddr(*_rid ^ (idx_in_req(w, i, *_rid, cqe) as u64) << 8));
            if o.extra != want {
                w.violation("C02", "wrong-result:address", format!("op #{id} (Accept): kernel wrote peer address {want}, op returned {}", o.extra));
            }
        }
        return;
    }
    if matches!(kind, Kind_::RecvFrom | Kind_::SocketName) && cqe.res >= 0 {
        let want = sockaddr_text(&effects::default_sockaddr(*_rid));
        if o.extra != want {
            w.violation("C02", "wrong-result:address", format!("op #{id} ({kind:?}): kernel wrote address {want}, op returned {}", o.extra));
        }
        if kind == Kind_::SocketName {
            return;
        }
    }
    if kind.is_count() {
        if val != i64::from(cqe.res) {
            w.violation("C02", "wrong-result:count", format!("op #{id} ({kind:?}) result #{idx}: kernel posted {}, op resolved with {val}", cqe.res));
        }
        if let Some(d) = &o.data {
            if matches!(kind, Kind_::WriteExtract) {
                return;
            }
            let n = produced.len();
            if d.len() < n || d[d.len() - n..] != produced[..] {
                w.violation("C02", "wrong-result:data", format!("op #{id} ({kind:?}) result #{idx}: buffer does not end with the {n} bytes the kernel wrote for this submission"));
            }
        }
        return;
    }
    match kind {
        Kind_::GetSockOpt => {
            if produced.len() == 4 {
                let exp = i64::from(u32::from_ne_bytes(produced[..4].try_into().unwrap()));
                if exp != val {
                    w.violation("C02", "wrong-result:value", format!("op #{id} GetSockOpt: kernel wrote {exp}, op returned {val}"));
                }
            }
        }
        _ => {
            if val != 0 {
                w.violation("C02", "wrong-result:unit", format!("op #{id} ({kind:?}) resolved with {val}"));
            }
        }
    }
}

fn sockaddr_text(bytes: &[u8]) -> String {
    let port = u16::from_be_bytes([bytes[2], bytes[3]]);
    format!("{}.{}.{}.{}:{port}", bytes[4], bytes[5], bytes[6], bytes[7])
}

/// Index of `cqe` among the completions posted for request `rid`.
fn idx_in_req(_w: &World, _i: usize, rid: u64, cqe: &Cqe) -> usize {
    let k = simk::k();
    k.reqs.get(&rid).and_then(|r| r.posted.iter().position(|c| c == cqe)).unwrap_or(0)
}

/// C09: re-issued requests must be byte-identical to the first attempt.
pub fn check_restarts(w: &mut World) {
    let mut found = Vec::new();
    {
        let k = simk::k();
        for s in &w.slots {
            if s.kind.class() == Class::Composite {
                continue;
            }
            let mut reqs: Vec<&simk::Req> = k.reqs.values().filter(|r| r.owner == s.id).collect();
            reqs.sort_by_key(|r| r.id);
            for pair in reqs.windows(2) {
                let (a, b) = (pair[0], pair[1]);
                let interrupted = a.posted.iter().rev().find(|c| c.flags & CQE_F_NOTIF == 0).map(|c| c.res == -libc::EINTR || c.res == -libc::ECANCELED).unwrap_or(false);
                if !interrupted {
                    found.push((s.id, s.kind, "resubmitted-without-interruption".to_string(), format!("{} then {}", a.sqe.describe(), b.sqe.describe())));
                } else if a.sqe.0 != b.sqe.0 {
                    found.push((s.id, s.kind, "restart-differs".to_string(), format!("first {} / retry {}", a.sqe.describe(), b.sqe.describe())));
                }
            }
        }
    }
    for (id, kind, sig, d) in found {
        w.violation("C09", sig, format!("op #{id} ({kind:?}): {d}"));
    }
}

fn pick_result(rng: &mut Rng, cfg: &GenCfg, w: &World, req: &simk::Req) -> (i32, bool) {
    // Returns (res, more).
    let sqe = &req.sqe;
    let multi = req.multishot;
    let more = multi && rng.chance(700, 1000);
    let zc_more = req.zc && rng.chance(800, 1000);
    let x = rng.below(1000);
    // A failed zero-copy send may still be followed by its notification.
    let zc_notif_after_error = req.zc && rng.chance(1, 2);
    if x < cfg.p_interrupt && !more {
        let e = if rng.chance(1, 2) { libc::EINTR } else { libc::ECANCELED };
        return (-e, zc_notif_after_error);
    }
    if x < cfg.p_interrupt + cfg.p_error && !more {
        return (-*rng.pick(errno_pool()), zc_notif_after_error);
    }
    let _ = w;
    let full = match sqe.opcode() {
        OP_READ | OP_RECV | OP_WRITE | OP_SEND | OP_SEND_ZC | OP_SPLICE => sqe.len() as i32,
        OP_READ_MULTISHOT => 40,
        OP_READV | OP_WRITEV | OP_RECVMSG | OP_SENDMSG | OP_SENDMSG_ZC => 48,
        OP_URING_CMD if sqe.off() as u32 == SOCKET_URING_OP_GETSOCKOPT => return (sqe.file_index() as i32, false),
        OP_FILES_UPDATE => return (1, false),
        _ => return (0, more),
    };
    let full = if sqe.buffer_select() { 40 } else { full };
    let res = if rng.below(1000) < cfg.p_short && full > 1 { 1 + rng.below(full as u64 - 1) as i32 } else { full };
    (res, more || zc_more)
}

pub struct HistoryResult {
    pub sig: u64,
    pub nontrivial: bool,
}

/// Run one random history.
pub fn run_history(cfg: &GenCfg, seed: u64, index: u64, rep: &mut Report) {
    let mut rng = Rng::derive(seed, fnv_name(cfg.name), index);
    let sq_size = *rng.pick(&cfg.sq_sizes);
    let cq_size = *rng.pick(&cfg.cq_sizes);
    let cq_size = cq_size.map(|c| c.max(sq_size));
    let near_wrap = rng.below(1000) < cfg.p_wrap_start;
    let starts = |rng: &mut Rng| -> u32 {
        if !near_wrap {
            return 0;
        }
        match rng.below(3) {
            0 => 0u32.wrapping_sub(1 + rng.below(12) as u32),
            1 => (1u32 << 31) - 1 - rng.below(4) as u32,
            _ => rng.next() as u32,
        }
    };
    let needs_pool = cfg.kinds.iter().any(|k| k.needs_pool());
    let wcfg = WorldCfg {
        sq_size,
        cq_size,
        direct: true,
        pool: if needs_pool { Some((*rng.pick(&[1u16, 2, 4, 8]), [64u32, 64, 24, 100, 48][(index % 5) as usize])) } else { None },
        sq_start: starts(&mut rng),
        cq_start: starts(&mut rng),
        layout_seed: if cfg.randomize_layout { rng.next() | 1 } else { 0 },
    };
    if cfg.leak_check {
        alloc::start_tracking();
    }
    let mut w = World::new(&wcfg, seed ^ index);
    w.ident = (cfg.name.to_string(), seed, index);
    if w.poisoned {
        return finish_poisoned(cfg, seed, index, w, rep);
    }
    w.ev(format!("world:sq={sq_size}:cq={:?}:wrap={near_wrap}", cq_size));
    if cfg.cancel_mix {
        let mut k = simk::k();
        for _ in 0..8 {
            let o = match rng.below(10) {
                0..=5 => CancelOutcome::Cancelled,
                6..=7 => CancelOutcome::NotFound,
                _ => CancelOutcome::Already,
            };
            k.knobs.cancel_outcomes.push_back(o);
        }
    }
    let mut interrupts = 0u64;
    let mut drops_in_flight = 0u64;
    let mut completions = 0u64;
    let total_w = cfg.w_new + cfg.w_poll + cfg.w_spurious_poll + cfg.w_drop + cfg.w_ring_poll + cfg.w_complete + cfg.w_bookkeeping + cfg.w_drop_results + cfg.w_stdio;
    for _step in 0..cfg.steps {
        if w.poisoned {
            break;
        }
        let mut x = rng.below(total_w);
        if x < cfg.w_stdio {
            // Standard-stream handles must never close their descriptor.
            let sq = w.sq.as_ref().unwrap().clone();
            let which = rng.below(3);
            alloc::a10(|| match which {
                0 => drop(a10::io::stdin(sq)),
                1 => drop(a10::io::stdout(sq)),
                _ => drop(a10::io::stderr(sq)),
            });
            w.ev(format!("stdio:{which}"));
            rep.cell("stdio-handle-dropped");
            continue;
        }
        x -= cfg.w_stdio;
        let live: Vec<usize> = (0..w.slots.len()).filter(|i| w.slots[*i].op.is_some()).collect();
        // --- new op
        if x < cfg.w_new {
            if live.len() < cfg.max_ops {
                let kind = *rng.pick(&cfg.kinds);
                let i = w.new_op(kind, &mut rng);
                rep.cell(format!("kind:{kind:?}"));
                let _ = i;
            }
            continue;
        }
        x -= cfg.w_new;
        // --- poll (only what may make progress: fresh or woken)
        if x < cfg.w_poll {
            let cands: Vec<usize> = live
                .iter()
                .copied()
                .filter(|i| match w.slots[*i].state {
                    SlotState::Fresh | SlotState::Yielded => true,
                    SlotState::Pending => w.woken(*i),
                    _ => false,
                })
                .collect();
            if !cands.is_empty() {
                let i = *rng.pick(&cands);
                do_poll(&mut w, i, &mut rng, cfg, rep);
            }
            continue;
        }
        x -= cfg.w_poll;
        // --- spurious re-poll, same or new waker
        if x < cfg.w_spurious_poll {
            let cands: Vec<usize> = live.iter().copied().filter(|i| w.slots[*i].state == SlotState::Pending).collect();
            if !cands.is_empty() {
                let i = *rng.pick(&cands);
                if rng.chance(1, 2) {
                    w.replace_waker(i);
                    let id = w.slots[i].id;
                    w.ev(format!("newwaker#{id}"));
                    rep.cell("repoll:new-waker");
                } else {
                    rep.cell("repoll:same-waker");
                }
                do_poll(&mut w, i, &mut rng, cfg, rep);
            }
            continue;
        }
        x -= cfg.w_spurious_poll;
        // --- drop
        if x < cfg.w_drop {
            if !live.is_empty() {
                let i = *rng.pick(&live);
                w.drop_slot(i);
                let s = &w.slots[i];
                if s.dropped_in_flight {
                    drops_in_flight += 1;
                }
                rep.cell(format!("drop:{:?}:{}", s.kind.class(), s.drop_point));
                rep.cell(format!("dropkind:{:?}:{}", s.kind, s.drop_point));
            }
            continue;
        }
        x -= cfg.w_drop;
        // --- Ring::poll
        if x < cfg.w_ring_poll {
            w.check_rbufs();
            w.ring_poll();
            if rng.chance(1, 3) {
                w.ring_poll_drain();
                w.check_wakeups();
            }
            continue;
        }
        x -= cfg.w_ring_poll;
        // --- kernel completes something
        if x < cfg.w_complete {
            let ids = simk::k().inflight_of(w.ring_fd);
            if !ids.is_empty() {
                let id = *rng.pick(&ids);
                let req = simk::k().req(id).clone();
                if req.state == ReqState::AwaitNotif {
                    w.complete(id, 0, false);
                    rep.cell("cqe:notif");
                } else {
                    let (res, more) = pick_result(&mut rng, cfg, &w, &req);
                    let owner_dropped = w.slots.iter().any(|s| s.id == req.owner && s.state == SlotState::Dropped);
                    let c = w.complete(id, res, more);
                    completions += 1;
                    if c.res == -libc::EINTR || c.res == -libc::ECANCELED {
                        if !owner_dropped {
                            interrupts += 1;
                        }
                        rep.cell("cqe:interrupt");
                    } else if c.res < 0 {
                        rep.cell("cqe:error");
                    } else if c.flags & CQE_F_MORE != 0 {
                        rep.cell(if req.zc { "cqe:zc-result" } else { "cqe:multishot-item" });
                    } else {
                        rep.cell("cqe:final-ok");
                    }
                    if owner_dropped {
                        rep.cell("cqe:for-dropped-op");
                    }
                }
            }
            continue;
        }
        x -= cfg.w_complete;
        // --- bookkeeping / padding completions
        if x < cfg.w_bookkeeping {
            inject_bookkeeping(&mut w, &mut rng, rep);
            continue;
        }
        // --- drop results handed out earlier
        if !w.kept_rbufs.is_empty() && rng.chance(1, 2) {
            let n = rng.below(w.kept_rbufs.len() as u64) as usize;
            if rng.chance(1, 2) {
                w.edit_rbuf(n, &mut rng);
                rep.cell("rbuf:edited-before-release");
            }
            w.drop_rbuf(n);
            w.ev("dropbuf".into());
        } else if !w.kept_afds.is_empty() {
            let n = rng.below(w.kept_afds.len() as u64) as usize;
            let f = w.kept_afds.swap_remove(n);
            alloc::a10(|| drop(f));
            w.ev("dropfd".into());
        }
    }

    if w.poisoned {
        return finish_poisoned(cfg, seed, index, w, rep);
    }
    // --- Drive everything to quiescence: complete what is in flight, poll what
    // is woken, until nothing moves.
    for _round in 0..40 {
        if w.poisoned {
            return finish_poisoned(cfg, seed, index, w, rep);
        }
        w.ring_poll_drain();
        w.check_wakeups();
        let ids = simk::k().inflight_of(w.ring_fd);
        let mut moved = false;
        for id in ids {
            let req = simk::k().req(id).clone();
            if req.state == ReqState::AwaitNotif {
                w.complete(id, 0, false);
            } else {
                let (res, _) = pick_result(&mut rng, cfg, &w, &req);
                let res = if res == -libc::EINTR || res == -libc::ECANCELED { -libc::EIO } else { res };
                w.complete(id, res, false);
            }
            moved = true;
        }
        w.ring_poll_drain();
        w.check_wakeups();
        let live: Vec<usize> = (0..w.slots.len()).filter(|i| w.slots[*i].op.is_some()).collect();
        for i in live {
            let st = w.slots[i].state;
            let go = match st {
                SlotState::Fresh | SlotState::Yielded => true,
                SlotState::Pending => w.woken(i),
                _ => false,
            };
            if go {
                do_poll(&mut w, i, &mut rng, cfg, rep);
                moved = true;
            }
        }
        if !moved {
            // Futures waiting for queue space: a10 wakes as many waiters per
            // kernel entry as there are free slots, and waiters of dropped
            // futures or replaced wakers still hold a place in line. Bounded
            // progress: after at most one entry per registered waiter (plus
            // slack) every waiter must have been woken.
            let blocked_unwoken = |w: &World| (0..w.slots.len()).any(|i| w.slots[i].op.is_some() && w.slots[i].state == SlotState::Pending && w.slots[i].blocked_on_space && !w.woken(i));
            if blocked_unwoken(&w) {
                let budget = w.blocked_registrations + 4;
                let mut n = 0;
                while n < budget && blocked_unwoken(&w) {
                    w.ring_poll();
                    n += 1;
                }
                rep.count("queue_space_extra_polls", n);
                if !blocked_unwoken(&w) {
                    continue;
                }
            }
            break;
        }
    }
    // Every live op must have finished by now (bounded progress).
    let stuck: Vec<(u64, Kind_, bool)> = w
        .slots
        .iter()
        .filter(|s| s.op.is_some() && !matches!(s.state, SlotState::Finished))
        .map(|s| (s.id, s.kind, s.blocked_on_space))
        .collect();
    for (id, kind, blocked) in stuck {
        let sig = if blocked { "lost-wakeup:queue-space" } else { "op-never-resolves" };
        w.violation("C03", sig, format!("op #{id} ({kind:?}) is still pending after the kernel completed everything and Ring::poll ran with room in the queue (blocked_on_space={blocked})"));
    }
    check_restarts(&mut w);
    w.collect_monitor_violations();
    if w.poisoned {
        return finish_poisoned(cfg, seed, index, w, rep);
    }
    // --- pool conservation: drop every operation and buffer, let the kernel
    // finish what is left, then every buffer must be the kernel's again.
    w.check_rbufs();
    if w.env.as_ref().map(|e| e.pool.is_some()).unwrap_or(false) {
        for i in 0..w.slots.len() {
            if w.slots[i].op.is_some() {
                w.drop_slot(i);
            }
        }
        while !w.kept_rbufs.is_empty() {
            w.drop_rbuf(0);
        }
        for _ in 0..4 {
            w.ring_poll_drain();
            let ids = simk::k().inflight_of(w.ring_fd);
            if ids.is_empty() {
                break;
            }
            for id in ids {
                let st = simk::k().req(id).state;
                let res = if st == ReqState::AwaitNotif { 0 } else { -libc::ECANCELED };
                w.complete(id, res, false);
            }
        }
        w.ring_poll_drain();
        w.check_pool_conservation();
        w.collect_monitor_violations();
        if w.poisoned {
            return finish_poisoned(cfg, seed, index, w, rep);
        }
    }
    // --- teardown and ledgers
    w.teardown();
    w.collect_monitor_violations();
    {
        let k = simk::k();
        let leaks = k.mapping_leaks();
        drop(k);
        for l in leaks {
            w.violation("C12", "mapping-leak", l);
        }
    }
    report_fd_leaks(&mut w);
    if cfg.leak_check {
        let leaks = alloc::end_tracking();
        if !leaks.is_empty() && index > 0 {
            let total: usize = leaks.iter().map(|l| l.size).sum();
            w.violation("C06", "state-leak", format!("{} block(s), {total} bytes allocated inside a10 calls still live after the ring and all handles were dropped (sizes {:?})", leaks.len(), leaks.iter().map(|l| l.size).take(8).collect::<Vec<_>>()));
        }
    }
    let nontrivial = completions >= 2 && w.slots.len() >= 2;
    let sig = w.signature();
    rep.count("interrupted_attempts", interrupts);
    rep.count("drops_in_flight", drops_in_flight);
    rep.count("completions_scripted", completions);
    rep.count("ops_created", w.slots.len() as u64);
    rep.count("ring_polls", w.ring_polls);
    rep.absorb_counters();
    let trace = w.trace.clone();
    rep.history(sig, nontrivial, || trace.join(" "));
    for v in std::mem::take(&mut w.viol) {
        rep.violation(ViolationOut { prop: v.prop, sig: v.sig, detail: v.detail, scenario: cfg.name.to_string(), seed, index, trace: w.trace.clone() });
    }
}

/// Descriptor ledger at the end of a history: everything the kernel handed out
/// must have been closed.
pub fn report_fd_leaks(w: &mut World) {
    let mut found = Vec::new();
    {
        let k = simk::k();
        for (fd, what) in crate::mon::fds::open_fds() {
            let creator = k.reqs.values().find(|r| r.created.iter().any(|c| c.0 == fd && !c.1));
            let sig = match (what, creator) {
                ("ring", _) => "ring-fd-leak".to_string(),
                (_, Some(r)) => {
                    let owner_dropped = w.slots.iter().any(|s| s.id == r.owner && s.state == SlotState::Dropped && s.dropped_in_flight);
                    let uncollected = w.slots.iter().any(|s| s.id == r.owner && s.state == SlotState::Dropped && !s.dropped_in_flight);
                    if owner_dropped {
                        format!("fd-leak-abandoned-op:{}", op_name(r.sqe.opcode()))
                    } else if uncollected {
                        format!("fd-leak-uncollected-op:{}", op_name(r.sqe.opcode()))
                    } else {
                        format!("fd-leak:{}", op_name(r.sqe.opcode()))
                    }
                }
                ("close-op", None) => "fd-leak:close-future-dropped".to_string(),
                (other, None) => format!("fd-leak:{other}"),
            };
            found.push((sig, format!("descriptor {fd} ({what}) still open after everything was dropped")));
        }
        // Direct descriptors that were never closed while their ring existed.
        let mut dids: Vec<u64> = k.direct_files.iter().filter(|(_, open)| **open).map(|(d, _)| *d).collect();
        dids.sort();
        for did in dids {
            let creator = k.direct_creator.get(&did).and_then(|r| k.reqs.get(r));
            let Some(r) = creator else { continue };
            if r.owner <= 1 {
                continue; // The world's own direct descriptor.
            }
            let owner_dropped = w.slots.iter().any(|s| s.id == r.owner && s.state == SlotState::Dropped && s.dropped_in_flight);
            let uncollected = w.slots.iter().any(|s| s.id == r.owner && s.state == SlotState::Dropped && !s.dropped_in_flight);
            let sig = if owner_dropped {
                format!("direct-leak-abandoned-op:{}", op_name(r.sqe.opcode()))
            } else if uncollected {
                format!("direct-leak-uncollected-op:{}", op_name(r.sqe.opcode()))
            } else {
                format!("direct-leak:{}", op_name(r.sqe.opcode()))
            };
            found.push((sig, format!("direct descriptor object {did} created by {} was never closed while its ring existed", r.sqe.describe())));
        }
    }
    for (sig, d) in found {
        w.violation("C07", sig, d);
    }
}

fn finish_poisoned(cfg: &GenCfg, seed: u64, index: u64, mut w: World, rep: &mut Report) {
    w.abandon();
    alloc::force_stop_tracking();
    rep.evaluations += 1;
    for v in std::mem::take(&mut w.viol) {
        rep.violation(ViolationOut { prop: v.prop, sig: v.sig, detail: v.detail, scenario: cfg.name.to_string(), seed, index, trace: w.trace.clone() });
    }
}

fn fnv_name(s: &str) -> u64 {
    crate::rng::fnv(0, s.as_bytes())
}

fn do_poll(w: &mut World, i: usize, rng: &mut Rng, cfg: &GenCfg, rep: &mut Report) {
    match w.poll_slot(i) {
        Poll::Pending => {}
        Poll::Ready(mut o) => {
            check_outcome(w, i, &o);
            rep.cell(format!("resolved:{:?}", w.slots[i].kind.class()));
            let keep = cfg.keep_results && rng.chance(2, 3);
            let bufs = std::mem::take(&mut o.rbufs);
            let fds = std::mem::take(&mut o.afds);
            if keep {
                for b in bufs {
                    w.keep_rbuf(b);
                }
                w.kept_afds.extend(fds);
            } else {
                alloc::a10(|| {
                    drop(bufs);
                    drop(fds);
                });
            }
        }
    }
}

fn inject_bookkeeping(w: &mut World, rng: &mut Rng, rep: &mut Report) {
    let fd = w.ring_fd;
    let live_ud: Vec<u64> = w.slots.iter().filter(|s| s.user_data != 0 && s.op.is_some() && w.has_live_request_ud(s.user_data)).map(|s| s.user_data).collect();
    let mut k = simk::k();
    let cqe = match rng.below(6) {
        0 => Cqe { user_data: 1, res: rng.next() as i32 & 0xffff, flags: 0 },
        1 => Cqe { user_data: 2, res: if rng.chance(1, 2) { -libc::ENOENT } else { -libc::EALREADY }, flags: 0 },
        // A background close that failed (the kernel only posts those).
        3 => Cqe { user_data: 3, res: -*rng.pick(&[libc::EBADF, libc::EIO, libc::EINTR, libc::ENOSPC]), flags: 0 },
        // A cancel request that failed in another way.
        4 => Cqe { user_data: 2, res: -*rng.pick(&[libc::EINVAL, libc::ENOMEM]), flags: 0 },
        2 if !live_ud.is_empty() => Cqe { user_data: *rng.pick(&live_ud), res: BOOKKEEPING_RES_BASE, flags: CQE_F_SKIP },
        _ => Cqe { user_data: rng.below(4), res: BOOKKEEPING_RES_BASE, flags: CQE_F_SKIP },
    };
    effects::post_raw(&mut k, fd, cqe);
    drop(k);
    rep.cell(format!("bookkeeping:ud={}:skip={}", if cqe.user_data > 3 { 9 } else { cqe.user_data }, cqe.flags & CQE_F_SKIP != 0));
    w.ev(format!("bookkeeping:ud={}:fl={:#x}", if cqe.user_data > 3 { 9 } else { cqe.user_data }, cqe.flags));
}

impl World {
    pub fn has_live_request_ud(&self, ud: u64) -> bool {
        let k = simk::k();
        k.reqs.values().any(|r| r.sqe.user_data() == ud && r.state != ReqState::Done)
    }
}
