//! C11 on the REAL kernel: one thread blocks in `Ring::poll`, another calls
//! `SubmissionQueue::wake` at a random moment around the start of the poll.
//!
//! Every poll has its own wake (the waker thread is joined before the next
//! round starts), so a poll that does not return is a lost wake-up. Because
//! the machine's timing is not ours, "does not return" is judged generously:
//! a poll with a 2 s timeout that expires is followed by a second one; only if
//! that one expires as well although `wake()` returned long ago the wake-up is
//! lost (a late wake-up would be delivered to the second poll at once).

use std::sync::Arc;
use std::sync::atomic::{AtomicBool, Ordering};
use std::time::{Duration, Instant};

use a10::Ring;

use crate::out::{Report, ViolationOut};
use crate::rng::{Rng, fnv};

fn spin(n: u64) {
    for _ in 0..n {
        std::hint::spin_loop();
    }
}

fn run_case(seed: u64, index: u64, rep: &mut Report) {
    let mut rng = Rng::derive(seed, 0xC11E, index);
    crate::simk::uninstall();
    let ring_type = *rng.pick(&["default", "default", "single-issuer", "kernel-thread"]);
    let mut cfg = Ring::config().with_submission_queue_size(*rng.pick(&[1u32, 2, 8]));
    match ring_type {
        "single-issuer" => cfg = cfg.single_issuer(),
        "kernel-thread" => cfg = cfg.with_kernel_thread(),
        _ => {}
    }
    let mut ring = match cfg.build() {
        Ok(r) => r,
        Err(e) => {
            rep.count(&format!("real_ring_unavailable:{ring_type}:{:?}", e.kind()), 1);
            rep.cell("c11real:skipped");
            return;
        }
    };
    let sq = ring.sq();
    let rounds = 20 + rng.below(60);
    let nwakers = 1 + rng.below(2);
    let mut slow = 0u64;
    let mut lost: Option<String> = None;
    let mut max_us = 0u128;
    for round in 0..rounds {
        let returned = Arc::new(AtomicBool::new(false));
        let mut handles = Vec::new();
        for _ in 0..nwakers {
            let sq = sq.clone();
            let delay = match rng.below(4) {
                0 => 0,
                1 => rng.below(200),
                2 => rng.below(3000),
                _ => rng.below(40_000),
            };
            let returned = returned.clone();
            handles.push(std::thread::spawn(move || {
                spin(delay);
                sq.wake();
                returned.store(true, Ordering::SeqCst);
            }));
        }
        spin(match rng.below(3) {
            0 => 0,
            1 => rng.below(3000),
            _ => rng.below(40_000),
        });
        let t0 = Instant::now();
        let _ = ring.poll(Some(Duration::from_secs(2)));
        let el = t0.elapsed();
        for h in handles {
            let _ = h.join();
        }
        max_us = max_us.max(el.as_micros());
        if el >= Duration::from_millis(1900) {
            // Late or lost? All wake() calls have returned by now.
            let t1 = Instant::now();
            let _ = ring.poll(Some(Duration::from_secs(2)));
            if t1.elapsed() >= Duration::from_millis(1900) {
                lost = Some(format!("round {round}: Ring::poll did not return for 2 s although {nwakers} wake() call(s) were made around its start and have returned; a second poll of 2 s found nothing either (ring: {ring_type})"));
                break;
            }
            slow += 1;
        }
        // With several wakers a second message may still be on its way: take it now so
        // that it cannot satisfy the next round's poll.
        if nwakers > 1 {
            let _ = ring.poll(Some(Duration::ZERO));
            let _ = ring.poll(Some(Duration::from_micros(50)));
        }
    }
    drop(ring);
    // Waking after the ring is gone must be harmless.
    sq.wake();
    sq.wake();
    rep.count("real_wake_rounds", rounds);
    rep.count("real_slow_wakeups", slow);
    rep.cell(format!("real-ring:{ring_type}"));
    rep.cell("real-wake-after-ring-dropped");
    let sig = fnv(index, &[ring_type.len() as u8, nwakers as u8, rounds as u8]);
    rep.history(sig, true, || format!("c11real ring={ring_type} wakers={nwakers} rounds={rounds} slowest-poll={max_us}us"));
    if let Some(d) = lost {
        rep.violation(ViolationOut { prop: "C11".into(), sig: format!("real:lost-wakeup:{ring_type}"), detail: d, scenario: "c11real".into(), seed, index, trace: Vec::new() });
    }
}

pub fn run(seed: u64, start: u64, iters: u64, rep: &mut Report) {
    for index in start..start + iters {
        super::guarded(rep, "c11real", "C11", seed, index, |rep| run_case(seed, index, rep));
    }
    crate::simk::install();
}
