//! C15: ReadBuf edits behave as a capacity-bounded byte vector confined to its
//! slot in the pool.

use std::ops::Bound;
use std::task::Poll;

use a10::io::ReadBuf;

use crate::mon::alloc;
use crate::ops::{Kind_, Outcome, fut_op};
use crate::out::{Report, ViolationOut};
use crate::rng::{Rng, fnv};
use crate::simk::mem::*;
use crate::simk::{self, effects};
use crate::world::{World, WorldCfg};

const CANARY: u8 = 0xC5;
const CANARY2: u8 = 0x3A;

fn bound_val(rng: &mut Rng, len: usize) -> usize {
    match rng.below(9) {
        0 => 0,
        1 => 1,
        2 => len.saturating_sub(1),
        3 => len,
        4 => len + 1,
        5 => usize::MAX,
        6 => usize::MAX - 1,
        _ => rng.below(len as u64 + 2) as usize,
    }
}

fn pick_bound(rng: &mut Rng, len: usize) -> Bound<usize> {
    match rng.below(5) {
        0 => Bound::Unbounded,
        1 | 2 => Bound::Included(bound_val(rng, len)),
        _ => Bound::Excluded(bound_val(rng, len)),
    }
}

/// What `Vec::drain` does for these bounds: `Some((start, end))` if valid.
fn model_range(start: Bound<usize>, end: Bound<usize>, len: usize) -> Option<(usize, usize)> {
    let s = match start {
        Bound::Unbounded => 0,
        Bound::Included(s) => s,
        Bound::Excluded(s) => s.checked_add(1)?,
    };
    let e = match end {
        Bound::Unbounded => len,
        Bound::Included(e) => e.checked_add(1)?,
        Bound::Excluded(e) => e,
    };
    if s <= e && e <= len { Some((s, e)) } else { None }
}

/// One pass. `prior` holds the snapshots of the buffer's whole slot taken after
/// every edit of the first pass, which ran the same edits with different bytes
/// in all *other* slots: a difference means an edit carried bytes from outside
/// the slot into it, i.e. it read outside its own slot.
fn run_once(seed: u64, index: u64, rep: &mut Report, canary: u8, prior: Option<&[Vec<u8>]>) -> Vec<Vec<u8>> {
    let second = prior.is_some();
    let mut snaps: Vec<Vec<u8>> = Vec::new();
    let mut rng = Rng::derive(seed, 0xC15, index);
    let pool_size = *rng.pick(&[1u16, 2, 4, 8]);
    let buf_size = match rng.below(6) {
        0 => 1,
        1 => 2,
        2 => 1 + rng.below(16) as u32,
        3 => 64,
        4 => 1 + rng.below(512) as u32,
        _ => 512,
    };
    let mut w = World::new(&WorldCfg { sq_size: 8, cq_size: None, direct: false, pool: Some((pool_size, buf_size)), sq_start: 0, cq_start: 0, layout_seed: 0 }, seed ^ index);
    w.ident = ("c15".into(), seed, index);
    let cap = buf_size as usize;
    let fill = rng.below(cap as u64 + 1) as usize;
    // Earlier reads occupy the first slots (their buffers stay alive to the end), so that the
    // buffer under test is not always slot 0.
    let ahead = (index % u64::from(pool_size)) as usize;
    let mut earlier: Vec<ReadBuf> = Vec::new();
    for _ in 0..ahead {
        let i = w.new_op(Kind_::ReadPool, &mut rng);
        assert!(w.poll_slot(i).is_pending());
        w.ring_poll();
        let id = *simk::k().inflight_of(w.ring_fd).last().expect("pool read in flight");
        w.complete(id, 1, false);
        w.ring_poll();
        if let Poll::Ready(mut o) = w.poll_slot(i) {
            earlier.extend(o.rbufs.drain(..));
        }
    }
    // Get a buffer filled by the kernel.
    let i = w.new_op(Kind_::ReadPool, &mut rng);
    assert!(w.poll_slot(i).is_pending());
    w.ring_poll();
    let id = *simk::k().inflight_of(w.ring_fd).last().expect("pool read in flight");
    let cqe = w.complete(id, fill as i32, false);
    w.ring_poll();
    let mut buf: ReadBuf = match w.poll_slot(i) {
        Poll::Ready(mut o) if o.res.is_ok() => o.rbufs.pop().unwrap(),
        Poll::Ready(o) => {
            // Zero-length reads do not select a buffer on some paths.
            w.ev(format!("setup-read:{}", o.brief()));
            finish(&mut w, seed, index, rep, 0, "setup-failed".into(), second);
            return snaps;
        }
        Poll::Pending => panic!("c15: pool read did not resolve"),
    };
    let bid = (cqe.flags >> 16) as u16;
    let mut model: Vec<u8> = simk::k().req(id).produced.last().cloned().unwrap_or_default();
    if buf.as_slice() != &model[..] {
        w.violation("C15", "initial-contents", format!("ReadBuf holds {} bytes after a {}-byte read", buf.len(), model.len()));
    }
    // Slot layout from the buffer ring.
    let (bgid, slots): (u16, Vec<(u16, u64, u32)>) = {
        let k = simk::k();
        let ring = &k.rings[&w.ring_fd];
        let (g, p) = ring.pbufs.iter().next().expect("pool registered");
        (*g, p.layout.iter().map(|(b, (a, l))| (*b, *a, *l)).collect())
    };
    let my = slots.iter().find(|s| s.0 == bid).copied().expect("selected buffer in layout");
    // Canaries everywhere but in this slot.
    for (b, addr, len) in &slots {
        if *b != bid {
            unsafe { wr_bytes(*addr, &vec![canary; *len as usize]) };
        }
    }
    // The part of the slot the kernel did not fill is unspecified: make it the same in both passes.
    unsafe { wr_bytes(my.1 + model.len() as u64, &vec![0x11; cap - model.len()]) };
    let mut high_water = model.len();
    let mut ops_done = 0;
    let n_ops = 1 + rng.below(12);
    let mut desc = format!("size={cap} fill={fill}");
    for _ in 0..n_ops {
        let len = model.len();
        match rng.below(8) {
            0 => {
                let n = bound_val(&mut rng, len);
                desc.push_str(&format!(" truncate({n})"));
                alloc::a10(|| buf.truncate(n));
                if n <= len {
                    model.truncate(n);
                }
            }
            1 => {
                desc.push_str(" clear");
                alloc::a10(|| buf.clear());
                model.clear();
            }
            2 | 3 | 4 => {
                let (s, e) = (pick_bound(&mut rng, len), pick_bound(&mut rng, len));
                desc.push_str(&format!(" remove({s:?},{e:?})"));
                let before = buf.as_slice().to_vec();
                let r = std::panic::catch_unwind(std::panic::AssertUnwindSafe(|| alloc::a10(|| buf.remove((s, e)))));
                match (model_range(s, e, len), r) {
                    (Some((a, b)), Ok(())) => {
                        model.drain(a..b);
                    }
                    (None, Err(_)) => {
                        if buf.as_slice() != &before[..] {
                            w.violation("C15", "invalid-range-modified-buffer", format!("remove({s:?},{e:?}) on len {len} panicked after changing the contents"));
                        }
                    }
                    (Some(_), Err(_)) => {
                        w.violation("C15", "valid-range-rejected", format!("remove({s:?},{e:?}) on len {len} panicked, Vec::drain accepts it"));
                        break;
                    }
                    (None, Ok(())) => {
                        w.violation("C15", "invalid-range-accepted", format!("remove({s:?},{e:?}) on a buffer of length {len} was accepted (len now {}), Vec::drain panics for this range", buf.len()));
                        break;
                    }
                }
            }
            5 => {
                let n = rng.below(cap as u64 + 3) as usize;
                let bytes: Vec<u8> = (0..n).map(|i| 0x40 | (i as u8 & 0x3f)).collect();
                desc.push_str(&format!(" extend({n})"));
                let r = alloc::a10(|| buf.extend_from_slice(&bytes));
                if len + n <= cap {
                    if r.is_err() {
                        w.violation("C15", "extend-refused-within-capacity", format!("extend_from_slice({n}) on len {len} cap {cap} refused"));
                    } else {
                        model.extend_from_slice(&bytes);
                    }
                } else if r.is_ok() {
                    w.violation("C15", "growth-beyond-capacity-accepted", format!("extend_from_slice({n}) on len {len} cap {cap} accepted"));
                    break;
                }
            }
            6 => {
                // spare_capacity_mut + set_len, like Vec.
                let spare = alloc::a10(|| buf.spare_capacity_mut().len());
                if spare != cap - len {
                    w.violation("C15", "spare-capacity", format!("spare_capacity_mut() has {spare} bytes, capacity {cap} - len {len} expected"));
                    break;
                }
                let n = rng.below(spare as u64 + 1) as usize;
                desc.push_str(&format!(" spare+set_len({n})"));
                let s = buf.spare_capacity_mut();
                for j in 0..n {
                    s[j].write(0x20 | (j as u8 & 0x1f));
                }
                unsafe { buf.set_len(len + n) };
                model.extend((0..n).map(|j| 0x20 | (j as u8 & 0x1f)));
            }
            _ => {
                // set_len to something already initialised.
                let n = rng.below(high_water as u64 + 1) as usize;
                desc.push_str(&format!(" set_len({n})"));
                // The model needs the bytes that are in the slot.
                let slot_bytes = unsafe { rd_bytes(my.1, cap) };
                unsafe { buf.set_len(n) };
                model = slot_bytes[..n].to_vec();
            }
        }
        high_water = high_water.max(model.len());
        ops_done += 1;
        if buf.len() != model.len() || buf.as_slice() != &model[..] {
            w.violation("C15", "contents-differ-from-vec-model", format!("after [{desc}]: ReadBuf has len {}, model len {} (or bytes differ)", buf.len(), model.len()));
            break;
        }
        if buf.is_empty() != model.is_empty() {
            w.violation("C15", "is-empty-differs-from-vec-model", format!("after [{desc}]: is_empty() is {} with {} bytes in the buffer", buf.is_empty(), model.len()));
        }
        {
            // The view the I/O operations take of the buffer (what a re-read would be offered).
            use a10::io::BufMut as _;
            if buf.spare_capacity() as usize != cap - model.len() || buf.has_spare_capacity() != (model.len() < cap) {
                w.violation("C15", "spare-capacity-view", format!("after [{desc}]: BufMut::spare_capacity() {} / has_spare_capacity() {} for len {} of {cap}", buf.spare_capacity(), buf.has_spare_capacity(), model.len()));
            }
        }
        if buf.capacity() != cap {
            w.violation("C15", "capacity-changed", format!("capacity() is {} for a pool of {cap}-byte buffers", buf.capacity()));
        }
        if !model.is_empty() && buf.as_slice().as_ptr().addr() as u64 != my.1 {
            w.violation("C15", "moved-out-of-slot", format!("buffer data now at {:#x}, slot {bid} is at {:#x}", buf.as_slice().as_ptr().addr(), my.1));
            break;
        }
        let snap = unsafe { rd_bytes(my.1, cap) };
        if let Some(prior) = prior {
            if let Some(p) = prior.get(snaps.len()) {
                if let Some(off) = (0..cap).find(|i| p[*i] != snap[*i]) {
                    w.violation("C15", "read-outside-own-slot", format!("after [{desc}] byte {off} of the buffer's slot is {:#04x}; with {CANARY:#04x} instead of {canary:#04x} in the other slots the same edits leave {:#04x} there: the last call copied bytes from outside its own slot", snap[off], p[off]));
                    break;
                }
            }
        }
        snaps.push(snap);
    }
    if !w.viol.is_empty() {
        // The model diverged: the rest would only repeat the finding.
        std::mem::forget(buf);
        w.poisoned = true;
        finish(&mut w, seed, index, rep, ops_done, desc, second);
        return snaps;
    }
    if second {
        alloc::a10(|| drop(buf));
        alloc::a10(|| drop(std::mem::take(&mut earlier)));
        finish(&mut w, seed, index, rep, ops_done, desc, second);
        return snaps;
    }
    // Re-read into the spare capacity (the kernel appends).
    if rng.chance(1, 2) && !w.poisoned {
        let len = model.len();
        let fdr: &'static a10::AsyncFd = w.env.as_ref().unwrap().fd;
        let op = alloc::a10(|| {
            fut_op(fdr.read(buf), |r: std::io::Result<ReadBuf>| match r {
                Ok(b) => {
                    let mut o = Outcome::ok(b.len() as i64);
                    o.rbufs.push(b);
                    o
                }
                Err(e) => Outcome::err(&e),
            })
        });
        let j = w.add_op("reread", op);
        assert!(w.poll_slot(j).is_pending());
        w.ring_poll();
        let id2 = *simk::k().inflight_of(w.ring_fd).last().expect("re-read in flight");
        let sqe = simk::k().req(id2).sqe.clone();
        desc.push_str(" reread");
        if !sqe.buffer_select() {
            if sqe.addr() != my.1 + len as u64 || sqe.len() as usize != cap - len {
                w.violation("C15", "reread-outside-spare-capacity", format!("re-read offers ({:#x},{}) to the kernel, the spare capacity is ({:#x},{})", sqe.addr(), sqe.len(), my.1 + len as u64, cap - len));
            }
            let k = rng.below((cap - len) as u64 + 1) as i32;
            w.complete(id2, k, false);
            w.ring_poll();
            match w.poll_slot(j) {
                Poll::Ready(mut o) if o.res.is_ok() => {
                    let b = o.rbufs.pop().unwrap();
                    let produced = simk::k().req(id2).produced.last().cloned().unwrap_or_default();
                    model.extend_from_slice(&produced);
                    if b.as_slice() != &model[..] {
                        w.violation("C15", "reread-contents", format!("after re-reading {} bytes into a buffer of {len}: len {} expected {}", produced.len(), b.len(), model.len()));
                    }
                    buf = b;
                }
                _ => {
                    w.violation("C15", "reread-failed", "re-read did not resolve with Ok".to_string());
                    finish(&mut w, seed, index, rep, ops_done, desc, second);
                    return snaps;
                }
            }
        } else {
            // Empty buffers (len 0 after clear keeps the slot) use the slot again;
            // a buffer-select request here would take a second slot.
            w.violation("C15", "reread-selects-new-buffer", format!("re-read with an owned buffer of len {len} asks the kernel to select another buffer"));
            w.complete(id2, 0, false);
            w.ring_poll();
            let _ = w.poll_slot(j);
            finish(&mut w, seed, index, rep, ops_done, desc, second);
            return snaps;
        }
    }
    // Nothing outside the slot may have changed.
    for (b, addr, len) in &slots {
        if *b != bid {
            let bytes = unsafe { rd_bytes(*addr, *len as usize) };
            if let Some(off) = bytes.iter().position(|x| *x != canary) {
                w.violation("C15", "wrote-outside-own-slot", format!("after [{desc}] byte {off} of pool slot {b} changed (the buffer lives in slot {bid})"));
            }
        }
    }
    // Release: the slot given back must be the one the kernel selected.
    alloc::a10(|| drop(buf));
    alloc::a10(|| drop(std::mem::take(&mut earlier)));
    {
        let mut k = simk::k();
        effects::pbuf_audit(&mut k, w.ring_fd, bgid);
        let ring = &k.rings[&w.ring_fd];
        if let Some(p) = ring.pbufs.get(&bgid) {
            if p.handed_out.contains_key(&bid) {
                drop(k);
                w.violation("C15", "released-other-slot", format!("after [{desc}] dropping the buffer did not give slot {bid} back to the kernel"));
            }
        }
    }
    finish(&mut w, seed, index, rep, ops_done, desc, second);
    snaps
}

fn run_case(seed: u64, index: u64, rep: &mut Report) {
    let snaps = run_once(seed, index, rep, CANARY, None);
    if !snaps.is_empty() {
        run_once(seed, index, rep, CANARY2, Some(&snaps));
    }
}

fn finish(w: &mut World, seed: u64, index: u64, rep: &mut Report, ops: u64, desc: String, second: bool) {
    w.collect_monitor_violations();
    if !w.poisoned {
        w.teardown();
        w.collect_monitor_violations();
    }
    if second {
        // Only the differential finding of the second pass is new.
        rep.count("edit_calls_second_pass", ops);
        for v in std::mem::take(&mut w.viol) {
            if v.sig == "read-outside-own-slot" {
                rep.violation(ViolationOut { prop: "C15".into(), sig: v.sig, detail: v.detail, scenario: "c15".into(), seed, index, trace: w.trace.clone() });
            }
        }
        return;
    }
    rep.count("edit_calls", ops);
    rep.absorb_counters();
    for word in desc.split(' ').skip(2) {
        let name = word.split('(').next().unwrap_or(word);
        rep.cell(format!("edit:{name}"));
    }
    let sig = fnv(0, desc.as_bytes());
    rep.history(sig, ops >= 1, || desc.clone());
    for v in std::mem::take(&mut w.viol) {
        let prop = if v.prop == "C08" { "C15".to_string() } else { v.prop };
        rep.violation(ViolationOut { prop, sig: v.sig, detail: v.detail, scenario: "c15".into(), seed, index, trace: w.trace.clone() });
    }
}

pub fn run(seed: u64, start: u64, iters: u64, rep: &mut Report) {
    for index in start..start + iters {
        super::guarded(rep, "c15", "C15", seed, index, |rep| run_case(seed, index, rep));
    }
}
