//! Small deterministic PRNG (splitmix64 seeding + xoshiro256**), own code.

#[derive(Clone, Debug)]
pub struct Rng {
    s: [u64; 4],
}

pub fn splitmix(x: &mut u64) -> u64 {
    *x = x.wrapping_add(0x9E37_79B9_7F4A_7C15);
    let mut z = *x;
    z = (z ^ (z >> 30)).wrapping_mul(0xBF58_476D_1CE4_E5B9);
    z = (z ^ (z >> 27)).wrapping_mul(0x94D0_49BB_1331_11EB);
    z ^ (z >> 31)
}

/// FNV-1a, used for history signatures.
pub fn fnv(h: u64, bytes: &[u8]) -> u64 {
    let mut h = if h == 0 { 0xcbf2_9ce4_8422_2325 } else { h };
    for b in bytes {
        h ^= u64::from(*b);
        h = h.wrapping_mul(0x0000_0100_0000_01B3);
    }
    h
}

impl Rng {
    pub fn new(seed: u64) -> Rng {
        let mut x = seed ^ 0xA10A_10A1_0A10_A10A;
        Rng {
            s: [
                splitmix(&mut x),
                splitmix(&mut x),
                splitmix(&mut x),
                splitmix(&mut x),
            ],
        }
    }

    /// Derive an independent stream.
    pub fn derive(seed: u64, a: u64, b: u64) -> Rng {
        let mut x = seed;
        let k = splitmix(&mut x) ^ a.wrapping_mul(0xD6E8_FEB8_6659_FD93);
        let mut y = k;
        let k2 = splitmix(&mut y) ^ b.wrapping_mul(0xCA5A_8263_9512_1157);
        Rng::new(k2)
    }

    pub fn next(&mut self) -> u64 {
        let r = self.s[1].wrapping_mul(5).rotate_left(7).wrapping_mul(9);
        let t = self.s[1] << 17;
        self.s[2] ^= self.s[0];
        self.s[3] ^= self.s[1];
        self.s[1] ^= self.s[2];
        self.s[0] ^= self.s[3];
        self.s[2] ^= t;
        self.s[3] = self.s[3].rotate_left(45);
        r
    }

    /// Uniform in `0..n` (n > 0).
    pub fn below(&mut self, n: u64) -> u64 {
        debug_assert!(n > 0);
        self.next() % n
    }

    pub fn range(&mut self, lo: u64, hi_incl: u64) -> u64 {
        lo + self.below(hi_incl - lo + 1)
    }

    pub fn chance(&mut self, num: u64, den: u64) -> bool {
        self.below(den) < num
    }

    pub fn pick<'a, T>(&mut self, xs: &'a [T]) -> &'a T {
        &xs[self.below(xs.len() as u64) as usize]
    }

    pub fn shuffle<T>(&mut self, xs: &mut [T]) {
        for i in (1..xs.len()).rev() {
            let j = self.below(i as u64 + 1) as usize;
            xs.swap(i, j);
        }
    }
}
