//! io_uring_enter: consuming submissions, posting completions.

use std::ffi::{c_int, c_uint, c_void};
use std::sync::atomic::Ordering;

use super::abi::*;
use super::effects;
use super::mem;
use super::{CancelOutcome, Counters, Cqe, Req, ReqState, Ring, Simk, Sqe, k, set_errno, thread_id};
use crate::mon::alloc;
use crate::mon::fds;

pub const TRAP_RES: i32 = 0x7A7A_7A7A;
pub const TRAP_FLAGS: u32 = 0;

/// Write a trap entry into completion slot `idx & mask`: whatever a10 makes of
/// it, it must never look at it.
pub fn write_trap(ring: &mut Ring, idx: u32, counters: &mut Counters) {
    if !ring.cq_ring.usable() {
        return;
    }
    let slot = (idx & (ring.cq_entries - 1)) as usize;
    let off = ring.cq_off[5] as usize + slot * CQE_SIZE;
    unsafe {
        let p = ring.cq_ring.ptr.add(off);
        p.cast::<u64>().write_unaligned(ring.trap_user_data);
        p.add(8).cast::<i32>().write_unaligned(TRAP_RES);
        p.add(12).cast::<u32>().write_unaligned(TRAP_FLAGS);
    }
    counters.traps_written += 1;
}

/// Look at the completion-queue head a10 published: check it and scribble the
/// slots it gave back.
pub fn sync_cq(s: &mut Simk, fd: i32) {
    let Some(ring) = s.rings.get_mut(&fd) else { return };
    if !ring.cq_ring.usable() {
        return;
    }
    let head = ring.a10_cq_head();
    let consumed = head.wrapping_sub(ring.cq_seen_head);
    let outstanding = ring.cq_tail.wrapping_sub(ring.cq_seen_head);
    if consumed > outstanding {
        let detail = format!(
            "completion queue head moved from {:#x} to {head:#x} but the kernel only published up to {:#x}",
            ring.cq_seen_head, ring.cq_tail
        );
        // Resynchronise so that one mistake is one report.
        ring.cq_seen_head = ring.cq_tail;
        s.violation("C05", "cq-head-beyond-tail", detail);
        return;
    }
    let mut i = ring.cq_seen_head;
    while i != head {
        write_trap(ring, i, &mut s.counters);
        i = i.wrapping_add(1);
    }
    ring.cq_seen_head = head;
    // a10 is done with the completions before `head`: their operation state
    // may be released now.
    ring.state_watch.retain(|(pos, req)| {
        if head.wrapping_sub(*pos).wrapping_sub(1) < (1 << 31) {
            alloc::release(*req);
            false
        } else {
            true
        }
    });
}

/// Post a completion on `fd` (or keep it in the overflow backlog).
pub fn post_cqe(s: &mut Simk, fd: i32, cqe: Cqe) {
    post_cqe_for(s, fd, cqe, 0)
}

/// Same, `state_req` names the request whose operation state stays referenced
/// until a10 has consumed this (final) completion.
pub fn post_cqe_for(s: &mut Simk, fd: i32, cqe: Cqe, state_req: u64) {
    sync_cq(s, fd);
    let Some(ring) = s.rings.get_mut(&fd) else { return };
    if !ring.cq_ring.usable() {
        return;
    }
    if !ring.backlog.is_empty() || ring.cq_tail.wrapping_sub(ring.cq_seen_head) >= ring.cq_entries {
        ring.backlog.push_back((cqe, state_req));
        s.counters.cqes_backlogged += 1;
        unsafe {
            ring.sq_ring
                .atomic_u32(ring.sq_off[4])
                .fetch_or(SQ_CQ_OVERFLOW, Ordering::Release);
        }
        flush_backlog(s, fd);
        return;
    }
    write_cqe(ring, cqe, state_req);
    s.counters.cqes += 1;
}

fn write_cqe(ring: &mut Ring, cqe: Cqe, state_req: u64) {
    if state_req != 0 {
        ring.state_watch.push((ring.cq_tail, state_req));
    }
    let slot = (ring.cq_tail & (ring.cq_entries - 1)) as usize;
    let off = ring.cq_off[5] as usize + slot * CQE_SIZE;
    unsafe {
        let p = ring.cq_ring.ptr.add(off);
        p.cast::<u64>().write_unaligned(cqe.user_data);
        p.add(8).cast::<i32>().write_unaligned(cqe.res);
        p.add(12).cast::<u32>().write_unaligned(cqe.flags);
    }
    ring.cq_tail = ring.cq_tail.wrapping_add(1);
    ring.posted += 1;
    unsafe {
        ring.cq_ring
            .atomic_u32(ring.cq_off[1])
            .store(ring.cq_tail, Ordering::Release);
    }
}

pub fn flush_backlog(s: &mut Simk, fd: i32) {
    sync_cq(s, fd);
    let Some(ring) = s.rings.get_mut(&fd) else { return };
    if !ring.cq_ring.usable() {
        return;
    }
    while !ring.backlog.is_empty()
        && ring.cq_tail.wrapping_sub(ring.cq_seen_head) < ring.cq_entries
    {
        let (cqe, state_req) = ring.backlog.pop_front().unwrap();
        write_cqe(ring, cqe, state_req);
        s.counters.cqes += 1;
    }
    if ring.backlog.is_empty() {
        unsafe {
            ring.sq_ring
                .atomic_u32(ring.sq_off[4])
                .fetch_and(!SQ_CQ_OVERFLOW, Ordering::Release);
        }
    }
}

/// The kernel runs concurrently with user space: it may look at the completion
/// queue head at any time, reuse slots that were given back and deliver
/// overflowed completions into them.
pub fn kernel_tick() {
    let Ok(mut g) = super::try_k() else { return };
    let s = &mut *g;
    let fds: Vec<i32> = s.rings.keys().copied().collect();
    for fd in fds {
        flush_backlog(s, fd);
    }
}

/// Number of completions visible to a10 and not yet consumed.
pub fn cq_ready(s: &mut Simk, fd: i32) -> u32 {
    sync_cq(s, fd);
    match s.rings.get(&fd) {
        Some(r) => r.cq_tail.wrapping_sub(r.cq_seen_head),
        None => 0,
    }
}

/// Unconsumed submission entries (peek, for the harness).
pub fn peek_sq(s: &mut Simk, fd: i32) -> Vec<Sqe> {
    let Some(ring) = s.rings.get(&fd) else { return Vec::new() };
    if !ring.usable() {
        return Vec::new();
    }
    let tail = ring.a10_sq_tail();
    let n = tail.wrapping_sub(ring.sq_head);
    let mut out = Vec::new();
    if n > ring.sq_entries {
        return out;
    }
    for i in 0..n {
        out.push(read_sqe(ring, ring.sq_head.wrapping_add(i)));
    }
    out
}

fn read_sqe(ring: &Ring, idx: u32) -> Sqe {
    let mut slot = idx & (ring.sq_entries - 1);
    if ring.flags & SETUP_NO_SQARRAY == 0 {
        slot = unsafe {
            ring.sq_ring
                .atomic_u32(ring.sq_off[6] + 4 * slot)
                .load(Ordering::Relaxed)
        } & (ring.sq_entries - 1);
    }
    let mut raw = [0u8; 64];
    // NOTE: under Miri the trailing padding of the entry (bytes 56..64) is
    // uninitialised after a10 assigned a union field; it must be zero for the
    // kernel and a10 zeroes the whole entry first, so it is not copied there.
    let n = if cfg!(miri) { 56 } else { SQE_SIZE };
    unsafe {
        std::ptr::copy_nonoverlapping(ring.sqes.ptr.add(slot as usize * SQE_SIZE), raw.as_mut_ptr(), n);
    }
    Sqe(raw)
}

/// Consume up to `max` submissions from ring `fd`. Returns the number consumed.
pub fn consume(s: &mut Simk, fd: i32, max: u32) -> u32 {
    let (tail, head, entries) = {
        let Some(ring) = s.rings.get(&fd) else { return 0 };
        if !ring.can_consume() {
            return 0;
        }
        (ring.a10_sq_tail(), ring.sq_head, ring.sq_entries)
    };
    let pending = tail.wrapping_sub(head);
    if pending > entries {
        s.violation(
            "C04",
            "sq-overrun",
            format!(
                "submission queue tail {tail:#x} is {pending} entries ahead of the kernel's head {head:#x}, queue has {entries} entries: unconsumed slots were overwritten"
            ),
        );
        // Consuming would submit the same entries twice; the rest of the
        // execution is meaningless.
        s.broken = true;
        crate::sched::ABORT.store(true, Ordering::SeqCst);
    }
    if s.broken {
        return 0;
    }
    let mut n = pending.min(max).min(entries);
    if s.knobs.consume_limit > 0 {
        n = n.min(s.knobs.consume_limit);
    }
    for i in 0..n {
        let sqe = {
            let ring = s.rings.get(&fd).unwrap();
            read_sqe(ring, head.wrapping_add(i))
        };
        {
            let ring = s.rings.get_mut(&fd).unwrap();
            ring.sq_head = head.wrapping_add(i + 1);
            ring.consumed += 1;
            unsafe {
                ring.sq_ring
                    .atomic_u32(ring.sq_off[0])
                    .store(ring.sq_head, Ordering::Release);
            }
        }
        s.counters.sqes += 1;
        submit(s, fd, sqe);
    }
    n
}

/// Process one consumed submission.
pub fn submit(s: &mut Simk, fd: i32, sqe: Sqe) {
    let clock = s.tick();
    if sqe.is_zero() || sqe.opcode() == OP_NOP || sqe.user_data() == 0 {
        s.violation(
            "C04",
            "sq-empty-entry",
            format!("kernel consumed a reset/partially written submission: {}", sqe.describe()),
        );
        if sqe.user_data() != 0 {
            post_cqe(s, fd, Cqe { user_data: sqe.user_data(), res: 0, flags: 0 });
        }
        return;
    }
    let id = s.next_req;
    s.next_req += 1;
    let owner = s.owners.get(&sqe.user_data()).copied().unwrap_or(0);
    let req = Req {
        id,
        ring: fd,
        multishot: sqe.is_multishot(),
        zc: sqe.is_zc(),
        sqe,
        state: ReqState::InFlight,
        posted: Vec::new(),
        produced: Vec::new(),
        captured: Vec::new(),
        created: Vec::new(),
        owner,
        thread: thread_id(),
        clock,
    };
    // Duplicate in-flight user_data: a single-shot operation submitted twice.
    if req.sqe.user_data() > 3 {
        if let Some(other) = s.find_by_user_data(req.sqe.user_data()) {
            let o = s.req(other).sqe.describe();
            s.violation(
                "C04",
                "sq-duplicate-submission",
                format!("user_data {:#x} consumed twice while in flight: {} and {}", req.sqe.user_data(), o, req.sqe.describe()),
            );
        }
    }
    let sqe = req.sqe.clone();
    s.reqs.insert(id, req);
    match sqe.opcode() {
        OP_ASYNC_CANCEL => {
            s.counters.cancels += 1;
            let target_ud = sqe.addr();
            let target = s.find_by_user_data(target_ud).filter(|t| s.req(*t).ring == fd);
            let mut outcome = s.knobs.cancel_outcomes.pop_front().unwrap_or(s.knobs.default_cancel);
            if target.is_none() {
                outcome = CancelOutcome::NotFound;
            } else if s.req(target.unwrap()).state == ReqState::AwaitNotif && outcome == CancelOutcome::Cancelled {
                // The send already happened, only the notification is pending.
                outcome = CancelOutcome::Already;
            }
            match outcome {
                CancelOutcome::Cancelled => {
                    // The real kernel posts the two completions in either
                    // order (the target's goes through task work).
                    if s.rng.chance(1, 2) {
                        effects::complete(s, target.unwrap(), -libc::ECANCELED, false);
                        finish_inline(s, id, 0);
                    } else {
                        finish_inline(s, id, 0);
                        effects::complete(s, target.unwrap(), -libc::ECANCELED, false);
                    }
                }
                CancelOutcome::NotFound => finish_inline(s, id, -libc::ENOENT),
                CancelOutcome::Already => finish_inline(s, id, -libc::EALREADY),
            }
        }
        OP_CLOSE if sqe.user_data() <= 3 || s.knobs.auto_close_ops => {
            let res = effects::do_close(s, fd, &sqe);
            finish_inline(s, id, res);
        }
        OP_MSG_RING => {
            let res = do_msg_ring(s, &sqe);
            finish_inline(s, id, res);
        }
        _ => {
            effects::hold_regions(s, id);
        }
    }
}

/// Complete a request that the kernel handles at submission time.
fn finish_inline(s: &mut Simk, id: u64, res: i32) {
    let (fd, ud, skip) = {
        let r = s.reqs.get_mut(&id).unwrap();
        r.state = ReqState::Done;
        (r.ring, r.sqe.user_data(), r.sqe.flags() & IOSQE_CQE_SKIP_SUCCESS != 0)
    };
    let cqe = Cqe { user_data: ud, res, flags: 0 };
    s.reqs.get_mut(&id).unwrap().posted.push(cqe);
    s.reqs.get_mut(&id).unwrap().produced.push(Vec::new());
    if skip && res >= 0 {
        return;
    }
    post_cqe(s, fd, cqe);
}

/// IORING_OP_MSG_RING (data message): returns the result for the sender.
pub fn do_msg_ring(s: &mut Simk, sqe: &Sqe) -> i32 {
    s.counters.msg_rings += 1;
    s.sync_fd_events();
    let target = sqe.fd();
    if sqe.addr() != MSG_DATA {
        return -libc::EINVAL;
    }
    if !s.rings.contains_key(&target) {
        let open = crate::mon::fds::state(target).is_some_and(|st| st.closes.is_empty()) || crate::mon::fds::os_open(target);
        return if open { -libc::EBADFD } else { -libc::EBADF };
    }
    if s.rings[&target].disabled {
        return -libc::EBADFD;
    }
    let cqe = Cqe {
        user_data: sqe.off(),
        res: sqe.len() as i32,
        flags: 0,
    };
    post_cqe(s, target, cqe);
    0
}

pub unsafe fn k_enter(
    fd: c_int,
    to_submit: c_uint,
    min_complete: c_uint,
    flags: c_uint,
    arg: *const c_void,
    size: usize,
) -> c_int {
    let has_timeout = if flags & ENTER_EXT_ARG != 0 {
        if size != GETEVENTS_ARG_SIZE || arg.is_null() {
            set_errno(libc::EINVAL);
            return -1;
        }
        let ts = unsafe { arg.cast::<u8>().add(GETEVENTS_ARG_TS).cast::<u64>().read_unaligned() };
        ts != 0
    } else {
        false
    };
    crate::sched::point(crate::sched::P_KERNEL_ENTER);
    let mut first = true;
    let mut submitted_before = 0;
    let ret = loop {
        let step = {
            let mut g = k();
            let s = &mut *g;
            if first {
                s.counters.enters += 1;
            }
            s.sync_fd_events();
            enter_step(s, fd, if first { to_submit } else { 0 }, min_complete, flags, has_timeout, first)
        };
        first = false;
        match step {
            Step::Done(r) => {
                break if r >= 0 { r + submitted_before } else if submitted_before > 0 { submitted_before } else { r };
            }
            Step::Block { submitted, want } => {
                submitted_before += submitted;
                if !crate::sched::wait_for_cq(fd, want) {
                    // Nothing else can run: the call would block forever.
                    if std::env::var("VERIF_SCHED_DEBUG").is_ok() {
                        eprintln!("would-block-forever: {}", crate::sched::statuses());
                    }
                    let mut g = k();
                    g.counters.would_block += 1;
                    g.violations.push(super::KViolation {
                        prop: "BLOCK",
                        sig: "would-block-forever".into(),
                        detail: format!("enter(min_complete={min_complete}) without timeout and nothing to deliver"),
                    });
                    break if submitted_before > 0 { submitted_before } else { -libc::EINTR };
                }
            }
        }
    };
    {
        let mut g = k();
        g.enter_log.push((fd, to_submit, min_complete, flags, has_timeout, ret));
        if g.enter_log.len() > 4096 {
            g.enter_log.drain(..2048);
        }
    }
    crate::sched::point(crate::sched::P_KERNEL_EXIT);
    // A real kernel submission thread runs in parallel with this system call; under the
    // baton scheduler give it (and everybody else) the chance to run whenever a caller
    // comes back from a kernel-thread ring that still has unconsumed submissions, so that
    // a10's busy-wait for a free slot makes progress.
    let spin = {
        let mut g = k();
        let pending = g.knobs.sqpoll_strict && g.rings.get(&fd).is_some_and(|r| r.sqpoll() && r.can_consume() && r.a10_sq_tail() != r.sq_head);
        if pending {
            // Only every n-th time (n chosen per schedule): the kernel thread may well be
            // slower than a few system calls of a spinning caller.
            g.sqpoll_spins += 1;
            g.sqpoll_spins % u64::from(g.knobs.sqpoll_yield_every.max(1)) == 0
        } else {
            false
        }
    };
    if spin {
        crate::sched::yield_now();
    }
    if ret < 0 {
        set_errno(-ret);
        -1
    } else {
        ret
    }
}

enum Step {
    Done(i32),
    Block { submitted: i32, want: u32 },
}

fn enter_step(s: &mut Simk, fd: i32, to_submit: u32, min_complete: u32, flags: u32, has_timeout: bool, first: bool) -> Step {
    if !s.rings.contains_key(&fd) {
        // An open descriptor that is not a ring vs. no descriptor at all.
        let open = crate::mon::fds::state(fd).is_some_and(|st| st.closes.is_empty()) || crate::mon::fds::os_open(fd);
        return Step::Done(if open { -libc::EOPNOTSUPP } else { -libc::EBADF });
    }
    if first && flags & !ENTER_KNOWN != 0 {
        return Step::Done(-libc::EINVAL);
    }
    if first {
        if let Some(e) = s.knobs.enter_errnos.pop_front() {
            if e != 0 {
                return Step::Done(-e);
            }
        }
        let ring = s.rings.get_mut(&fd).unwrap();
        ring.enters += 1;
        if ring.disabled {
            return Step::Done(-libc::EBADFD);
        }
        // Only submitting (and, with deferred task work, waiting) is reserved
        // to the issuer thread.
        let reserved = to_submit > 0 || (ring.flags & SETUP_DEFER_TASKRUN != 0 && flags & ENTER_GETEVENTS != 0);
        if ring.single_issuer() && reserved {
            if let Some(owner) = ring.owner_thread {
                if owner != thread_id() {
                    return Step::Done(-libc::EEXIST);
                }
            }
        }
    }
    let sqpoll = s.rings[&fd].sqpoll();
    let submitted = if sqpoll {
        // The kernel thread picks up everything; enter never submits itself.
        // Strict mode needs somebody playing the kernel thread: that is a thread of
        // the running schedule. Outside of a schedule (before it starts, after it ended)
        // the kernel thread is modelled as having run by the time the call returns.
        if !s.knobs.sqpoll_strict || !crate::sched::in_schedule() {
            consume(s, fd, u32::MAX);
        }
        if first { to_submit as i32 } else { 0 }
    } else {
        consume(s, fd, to_submit) as i32
    };
    if let Some(mut hook) = s.on_enter.take() {
        hook(s, fd);
        if s.on_enter.is_none() {
            s.on_enter = Some(hook);
        }
    }
    flush_backlog(s, fd);
    if flags & ENTER_GETEVENTS != 0 {
        let ready = cq_ready(s, fd);
        let want = min_complete.min(s.rings[&fd].cq_entries);
        if ready < want {
            if !has_timeout {
                return Step::Block { submitted, want };
            } else if submitted == 0 || sqpoll {
                return Step::Done(-libc::ETIME);
            }
        }
    }
    Step::Done(submitted)
}

/// The simulated kernel submission thread (SQPOLL) may run at any time.
pub fn sqpoll_run(s: &mut Simk) {
    let fds: Vec<i32> = s.rings.iter().filter(|(_, r)| r.sqpoll() && !r.disabled).map(|(fd, _)| *fd).collect();
    for fd in fds {
        consume(s, fd, u32::MAX);
    }
}

/// Helper used by `effects`: forget the kernel-held regions of a request.
pub fn release_req(id: u64) {
    alloc::release(id);
}

#[allow(unused)]
fn _unused(_: &mut Simk) {
    let _ = fds::tick();
    let _ = mem::PAGE;
}
