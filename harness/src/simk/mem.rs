//! User-memory access helpers and ring backing memory for the simulated kernel.

use std::sync::atomic::{AtomicU16, AtomicU32};

/// Pointer from an integer address handed over by a10 (provenance was exposed
/// by the allocator monitor).
pub fn uptr(addr: u64) -> *mut u8 {
    std::ptr::with_exposed_provenance_mut(addr as usize)
}

pub unsafe fn rd_u8(addr: u64) -> u8 {
    unsafe { uptr(addr).read() }
}
pub unsafe fn rd_u16(addr: u64) -> u16 {
    unsafe { uptr(addr).cast::<u16>().read_unaligned() }
}
pub unsafe fn rd_u32(addr: u64) -> u32 {
    unsafe { uptr(addr).cast::<u32>().read_unaligned() }
}
pub unsafe fn rd_i32(addr: u64) -> i32 {
    unsafe { uptr(addr).cast::<i32>().read_unaligned() }
}
pub unsafe fn rd_u64(addr: u64) -> u64 {
    unsafe { uptr(addr).cast::<u64>().read_unaligned() }
}
pub unsafe fn wr_u32(addr: u64, v: u32) {
    unsafe { uptr(addr).cast::<u32>().write_unaligned(v) }
}
pub unsafe fn wr_i32(addr: u64, v: i32) {
    unsafe { uptr(addr).cast::<i32>().write_unaligned(v) }
}
pub unsafe fn rd_bytes(addr: u64, len: usize) -> Vec<u8> {
    let mut v = vec![0u8; len];
    if len > 0 {
        unsafe { std::ptr::copy_nonoverlapping(uptr(addr), v.as_mut_ptr(), len) };
    }
    v
}
pub unsafe fn wr_bytes(addr: u64, bytes: &[u8]) {
    if !bytes.is_empty() {
        unsafe { std::ptr::copy_nonoverlapping(bytes.as_ptr(), uptr(addr), bytes.len()) };
    }
}
pub unsafe fn strlen(addr: u64) -> usize {
    let mut n = 0;
    while unsafe { rd_u8(addr + n as u64) } != 0 {
        n += 1;
        if n > 8192 {
            break;
        }
    }
    n
}

/// Backing memory of a ring region.
#[derive(Debug)]
pub struct Region {
    pub ptr: *mut u8,
    pub len: usize,
    pub state: RegionState,
}

#[derive(Debug, Copy, Clone, PartialEq, Eq)]
pub enum RegionState {
    /// Allocated, never mapped by a10.
    Fresh,
    Mapped,
    /// Unmapped by a10: natively PROT_NONE, under Miri/sanitizers freed.
    Unmapped,
    Released,
}

pub const PAGE: usize = 4096;

pub fn round_page(n: usize) -> usize {
    (n + PAGE - 1) & !(PAGE - 1)
}

const NATIVE_MMAP: bool = !(cfg!(miri) || cfg!(feature = "sanitizer"));

impl Region {
    pub fn new(len: usize) -> Region {
        let len = round_page(len.max(1));
        let ptr = if NATIVE_MMAP {
            #[cfg(not(miri))]
            unsafe {
                let p = libc::mmap(
                    std::ptr::null_mut(),
                    len,
                    libc::PROT_READ | libc::PROT_WRITE,
                    libc::MAP_PRIVATE | libc::MAP_ANONYMOUS,
                    -1,
                    0,
                );
                assert!(p != libc::MAP_FAILED, "simk: mmap failed");
                p.cast::<u8>()
            }
            #[cfg(miri)]
            unreachable!()
        } else {
            let layout = std::alloc::Layout::from_size_align(len, 64).unwrap();
            let p = unsafe { std::alloc::alloc_zeroed(layout) };
            assert!(!p.is_null());
            p
        };
        Region {
            ptr,
            len,
            state: RegionState::Fresh,
        }
    }

    pub fn addr(&self) -> usize {
        self.ptr.addr()
    }

    pub fn usable(&self) -> bool {
        matches!(self.state, RegionState::Fresh | RegionState::Mapped)
    }

    /// a10 unmapped the region: any later touch must fault / be reported.
    pub fn unmap(&mut self) {
        if !self.usable() {
            return;
        }
        if NATIVE_MMAP {
            #[cfg(not(miri))]
            unsafe {
                libc::mprotect(self.ptr.cast(), self.len, libc::PROT_NONE);
            }
            self.state = RegionState::Unmapped;
        } else {
            let layout = std::alloc::Layout::from_size_align(self.len, 64).unwrap();
            unsafe { std::alloc::dealloc(self.ptr, layout) };
            self.state = RegionState::Released;
        }
    }

    /// Give the memory back for real.
    pub fn release(&mut self) {
        match self.state {
            RegionState::Released => {}
            _ if NATIVE_MMAP => {
                #[cfg(not(miri))]
                unsafe {
                    libc::munmap(self.ptr.cast(), self.len);
                }
            }
            RegionState::Unmapped => {}
            _ => {
                let layout = std::alloc::Layout::from_size_align(self.len, 64).unwrap();
                unsafe { std::alloc::dealloc(self.ptr, layout) };
            }
        }
        self.state = RegionState::Released;
    }

    pub unsafe fn atomic_u32(&self, off: u32) -> &AtomicU32 {
        debug_assert!((off as usize) + 4 <= self.len);
        unsafe { AtomicU32::from_ptr(self.ptr.add(off as usize).cast()) }
    }
}

pub unsafe fn atomic_u16_at(addr: u64) -> &'static AtomicU16 {
    unsafe { AtomicU16::from_ptr(uptr(addr).cast()) }
}

unsafe impl Send for Region {}
