//! What the kernel does to user memory and descriptors for each request.

use super::abi::*;
use super::enter::post_cqe;
use super::mem::*;
use super::{Cqe, ReqState, Simk, Sqe};
use crate::mon::alloc::{self, what};
use crate::mon::fds;

/// Deterministic content the kernel "reads" into user buffers: byte `i` of the
/// data produced for request `id`.
pub fn pattern(id: u64, i: usize) -> u8 {
    let x = (id.wrapping_mul(0x9E37_79B9) ^ (i as u64).wrapping_mul(0x85EB_CA6B)).wrapping_add(i as u64 >> 3);
    (x ^ (x >> 7) ^ (x >> 13)) as u8 | 1
}

pub fn pattern_vec(id: u64, n: usize) -> Vec<u8> {
    (0..n).map(|i| pattern(id, i)).collect()
}

/// User memory regions a submission hands to the kernel: (addr, len, kind, kernel writes).
pub fn regions(sqe: &Sqe) -> Vec<(u64, usize, u8, bool)> {
    let mut out = Vec::new();
    let op = sqe.opcode();
    unsafe {
        match op {
            OP_READ | OP_RECV if !sqe.buffer_select() => {
                out.push((sqe.addr(), sqe.len() as usize, what::DATA, true));
            }
            OP_WRITE | OP_SEND | OP_SEND_ZC => {
                out.push((sqe.addr(), sqe.len() as usize, what::DATA, false));
                if op != OP_WRITE {
                    let alen = sqe.u16_at(SQE_FILE_INDEX) as usize;
                    if sqe.off() != 0 && alen != 0 {
                        out.push((sqe.off(), alen, what::ADDR, false));
                    }
                }
            }
            OP_READV | OP_WRITEV => {
                let n = sqe.len() as usize;
                out.push((sqe.addr(), n * IOVEC_SIZE, what::IOVEC, false));
                for i in 0..n {
                    let base = rd_u64(sqe.addr() + (i * IOVEC_SIZE) as u64);
                    let len = rd_u64(sqe.addr() + (i * IOVEC_SIZE) as u64 + 8) as usize;
                    out.push((base, len, what::DATA, op == OP_READV));
                }
            }
            OP_RECVMSG | OP_SENDMSG | OP_SENDMSG_ZC => {
                let m = sqe.addr();
                let recv = op == OP_RECVMSG;
                out.push((m, MSGHDR_SIZE, what::MSGHDR, recv));
                let name = rd_u64(m);
                let namelen = rd_u32(m + 8) as usize;
                if name != 0 && namelen != 0 {
                    out.push((name, namelen, what::ADDR, recv));
                }
                let iov = rd_u64(m + 16);
                let iovlen = rd_u64(m + 24) as usize;
                if !(recv && sqe.buffer_select()) {
                    out.push((iov, iovlen * IOVEC_SIZE, what::IOVEC, false));
                    for i in 0..iovlen {
                        let base = rd_u64(iov + (i * IOVEC_SIZE) as u64);
                        let len = rd_u64(iov + (i * IOVEC_SIZE) as u64 + 8) as usize;
                        out.push((base, len, what::DATA, recv));
                    }
                }
                let ctl = rd_u64(m + 32);
                let ctllen = rd_u64(m + 40) as usize;
                if ctl != 0 && ctllen != 0 {
                    out.push((ctl, ctllen, what::OUT, recv));
                }
            }
            OP_ACCEPT => {
                if sqe.addr() != 0 && sqe.off() != 0 {
                    let alen = rd_u32(sqe.off()) as usize;
                    out.push((sqe.off(), 4, what::OUT, true));
                    out.push((sqe.addr(), alen, what::ADDR, true));
                }
            }
            OP_CONNECT => out.push((sqe.addr(), sqe.off() as usize, what::ADDR, false)),
            OP_BIND => out.push((sqe.addr(), sqe.off() as usize, what::ADDR, false)),
            OP_OPENAT | OP_MKDIRAT | OP_UNLINKAT => {
                out.push((sqe.addr(), strlen(sqe.addr()) + 1, what::PATH, false));
            }
            OP_RENAMEAT => {
                out.push((sqe.addr(), strlen(sqe.addr()) + 1, what::PATH, false));
                out.push((sqe.off(), strlen(sqe.off()) + 1, what::PATH, false));
            }
            OP_STATX => {
                out.push((sqe.off(), STATX_SIZE, what::OUT, true));
            }
            OP_WAITID => out.push((sqe.off(), SIGINFO_SIZE, what::OUT, true)),
            OP_PIPE => out.push((sqe.addr(), 8, what::OUT, true)),
            OP_FILES_UPDATE => out.push((sqe.addr(), 4 * sqe.len() as usize, what::OUT, true)),
            OP_URING_CMD => {
                let cmd = sqe.off() as u32;
                match cmd {
                    SOCKET_URING_OP_GETSOCKOPT => {
                        out.push((sqe.addr3(), sqe.file_index() as usize, what::OUT, true));
                    }
                    SOCKET_URING_OP_SETSOCKOPT => {
                        out.push((sqe.addr3(), sqe.file_index() as usize, what::OUT, false));
                    }
                    SOCKET_URING_OP_GETSOCKNAME => {
                        if sqe.addr3() != 0 {
                            let alen = rd_u32(sqe.addr3()) as usize;
                            out.push((sqe.addr3(), 4, what::OUT, true));
                            out.push((sqe.addr(), alen, what::ADDR, true));
                        }
                    }
                    _ => {}
                }
            }
            _ => {}
        }
    }
    out.retain(|r| r.0 != 0 && r.1 != 0);
    out
}

/// Pseudo request id for a submission that is published in the submission
/// queue but not yet consumed by the kernel.
pub fn pending_id(user_data: u64) -> u64 {
    (1 << 62) | (user_data >> 1)
}

/// A submission became visible to the kernel (a10 published the tail): from
/// now on everything it points to belongs to the kernel.
pub fn hold_published(sqe: &Sqe) {
    let ud = sqe.user_data();
    if ud <= 3 {
        return;
    }
    let id = pending_id(ud);
    alloc::release(id);
    alloc::hold((ud & !1) as usize, 16, id, what::STATE);
    for (addr, len, w, _) in regions(sqe) {
        alloc::hold(addr as usize, len, id, w);
    }
}

/// Register everything request `id` hands to the kernel as kernel-held.
pub fn hold_regions(s: &mut Simk, id: u64) {
    let sqe = s.reqs[&id].sqe.clone();
    alloc::release(pending_id(sqe.user_data()));
    // The operation state itself: the completion handler dereferences it.
    let ud = sqe.user_data();
    if ud > 3 {
        alloc::hold((ud & !1) as usize, 16, id, what::STATE);
    }
    for (addr, len, w, _) in regions(&sqe) {
        alloc::hold(addr as usize, len, id, w);
        check_not_stack(s, id, addr, len, w);
    }
}

fn check_not_stack(s: &mut Simk, id: u64, addr: u64, len: usize, w: u8) {
    if let Some((lo, hi)) = crate::mon::stack::current_thread_stack() {
        let a = addr as usize;
        if a >= lo && a + len <= hi {
            let d = s.reqs[&id].sqe.describe();
            s.violation(
                "C01",
                format!("stack-memory-shared-with-kernel:{}:{}", op_name(s.reqs[&id].sqe.opcode()), what::name(w)),
                format!("{d}: {} at {addr:#x}+{len} lies on the submitting thread's stack", what::name(w)),
            );
        }
    }
}

fn new_descriptor(s: &mut Simk, ring_fd: i32, id: u64, direct: bool, what_: &'static str) -> Result<i32, i32> {
    if direct {
        let did = s.next_direct_id;
        let ring = s.rings.get_mut(&ring_fd).unwrap();
        let Some(files) = ring.files.as_mut() else { return Err(libc::ENXIO) };
        // Any free slot is a legal choice for the kernel; with a big table use
        // indices that cannot be mistaken for regular descriptor numbers.
        let base = if files.len() > DIRECT_BASE { DIRECT_BASE } else { 0 };
        let Some(idx) = (base..files.len()).find(|i| files[*i].is_none()) else { return Err(libc::ENFILE) };
        files[idx] = Some(did);
        s.next_direct_id += 1;
        s.direct_files.insert(did, true);
        s.direct_creator.insert(did, id);
        s.reqs.get_mut(&id).unwrap().created.push((idx as i32, true));
        Ok(idx as i32)
    } else {
        let fd = fds::issue(what_);
        s.reqs.get_mut(&id).unwrap().created.push((fd, false));
        Ok(fd)
    }
}

pub fn direct_closed(s: &mut Simk, did: u64, idx: usize, how: &str) {
    match s.direct_files.get_mut(&did) {
        Some(open) if *open => *open = false,
        _ => s.violation(
            "C07",
            format!("direct-double-close:{how}"),
            format!("direct descriptor object {did} (slot {idx}) closed twice"),
        ),
    }
}

/// First direct-descriptor index handed out when the table is large enough.
pub const DIRECT_BASE: usize = 3000;

/// IORING_OP_CLOSE.
pub fn do_close(s: &mut Simk, ring_fd: i32, sqe: &Sqe) -> i32 {
    s.counters.closes += 1;
    let file_index = sqe.file_index();
    if file_index != 0 {
        if sqe.fd() != 0 {
            return -libc::EINVAL;
        }
        let idx = (file_index - 1) as usize;
        let ring = s.rings.get_mut(&ring_fd).unwrap();
        let Some(files) = ring.files.as_mut() else { return -libc::ENXIO };
        if idx >= files.len() {
            return -libc::EINVAL;
        }
        match files[idx].take() {
            Some(did) => {
                direct_closed(s, did, idx, "close-op");
                0
            }
            None => {
                s.violation("C07", "direct-close-empty-slot:close-op", format!("IORING_OP_CLOSE for direct descriptor {idx}, which is not in use (regular descriptor closed as direct, or closed twice)"));
                -libc::EBADF
            }
        }
    } else {
        if sqe.flags() & IOSQE_FIXED_FILE != 0 {
            return -libc::EBADF;
        }
        if (DIRECT_BASE as i32..4096).contains(&sqe.fd()) {
            s.violation("C07", "direct-closed-as-regular:close-op", format!("IORING_OP_CLOSE with regular descriptor number {}, which is a direct descriptor index", sqe.fd()));
            return -libc::EBADF;
        }
        fds::ring_close(sqe.fd())
    }
}

/// Pick the next provided buffer of group `bgid`.
pub fn select_buffer(s: &mut Simk, ring_fd: i32, bgid: u16, id: u64) -> Result<(u16, u64, u32), i32> {
    pbuf_audit(s, ring_fd, bgid);
    let ring = s.rings.get_mut(&ring_fd).unwrap();
    let Some(p) = ring.pbufs.get_mut(&bgid) else { return Err(libc::ENOBUFS) };
    let tail = unsafe { atomic_u16_at(p.ring_addr + BUF_RING_TAIL as u64).load(std::sync::atomic::Ordering::Acquire) };
    if tail == p.khead {
        return Err(libc::ENOBUFS);
    }
    let e = p.ring_addr + (u64::from(p.khead) & u64::from(p.entries - 1)) * BUF_SIZE as u64;
    let (addr, len, bid) = unsafe { (rd_u64(e), rd_u32(e + 8), rd_u16(e + 12)) };
    p.khead = p.khead.wrapping_add(1);
    p.handed_out.insert(bid, id);
    s.counters.pbuf_selects += 1;
    Ok((bid, addr, len))
}

/// Check what a10 published in the buffer ring of group `bgid` since the last
/// look: every newly offered entry must be a buffer that was handed out, at its
/// own address, exactly once.
pub fn pbuf_audit(s: &mut Simk, ring_fd: i32, bgid: u16) {
    let mut problems: Vec<(String, String)> = Vec::new();
    let mut returns = 0;
    {
        let Some(ring) = s.rings.get_mut(&ring_fd) else { return };
        let Some(p) = ring.pbufs.get_mut(&bgid) else { return };
        let tail = unsafe { atomic_u16_at(p.ring_addr + BUF_RING_TAIL as u64).load(std::sync::atomic::Ordering::Acquire) };
        let avail = tail.wrapping_sub(p.khead);
        if u32::from(avail) > p.entries {
            problems.push((
                "pool-ring-overfull".into(),
                format!("buffer ring {bgid}: tail {tail} is {avail} ahead of kernel head {}, ring has {} entries", p.khead, p.entries),
            ));
        }
        let mut i = p.seen_tail;
        let mut steps = 0;
        while i != tail && steps <= p.entries {
            let e = p.ring_addr + (u64::from(i) & u64::from(p.entries - 1)) * BUF_SIZE as u64;
            let (addr, len, bid) = unsafe { (rd_u64(e), rd_u32(e + 8), rd_u16(e + 12)) };
            if let Some((a0, l0)) = p.layout.get(&bid).copied() {
                returns += 1;
                if p.handed_out.remove(&bid).is_none() {
                    problems.push((
                        "pool-buffer-offered-twice".into(),
                        format!("buffer ring {bgid}: buffer {bid} offered to the kernel while the kernel already owns it"),
                    ));
                }
                if a0 != addr || l0 != len {
                    problems.push((
                        "pool-buffer-wrong-address".into(),
                        format!("buffer ring {bgid}: buffer {bid} offered with addr {addr:#x} len {len}, registered as {a0:#x} len {l0}"),
                    ));
                }
            } else if (p.layout.len() as u32) < p.entries {
                // Initial fill.
                p.layout.insert(bid, (addr, len));
            } else {
                problems.push((
                    "pool-buffer-unknown-id".into(),
                    format!("buffer ring {bgid}: unknown buffer id {bid} offered"),
                ));
            }
            i = i.wrapping_add(1);
            steps += 1;
        }
        p.seen_tail = tail;
    }
    s.counters.pbuf_returns += returns;
    for (sig, detail) in problems {
        s.violation("C08", sig, detail);
    }
}

fn scatter(iov: u64, iovlen: usize, data: &[u8]) -> usize {
    let mut done = 0;
    for i in 0..iovlen {
        if done >= data.len() {
            break;
        }
        unsafe {
            let base = rd_u64(iov + (i * IOVEC_SIZE) as u64);
            let len = rd_u64(iov + (i * IOVEC_SIZE) as u64 + 8) as usize;
            let n = len.min(data.len() - done);
            wr_bytes(base, &data[done..done + n]);
            done += n;
        }
    }
    done
}

fn gather(iov: u64, iovlen: usize, max: usize) -> Vec<u8> {
    let mut out = Vec::new();
    for i in 0..iovlen {
        if out.len() >= max {
            break;
        }
        unsafe {
            let base = rd_u64(iov + (i * IOVEC_SIZE) as u64);
            let len = rd_u64(iov + (i * IOVEC_SIZE) as u64 + 8) as usize;
            let n = len.min(max - out.len());
            out.extend_from_slice(&rd_bytes(base, n));
        }
    }
    out
}

/// Address bytes the kernel reports for accepted / named sockets; scenarios
/// can override.
pub fn default_sockaddr(id: u64) -> Vec<u8> {
    // AF_INET, port = id (be), 127.0.0.1
    let mut v = vec![0u8; 16];
    v[0..2].copy_from_slice(&(libc::AF_INET as u16).to_ne_bytes());
    v[2..4].copy_from_slice(&(id as u16).to_be_bytes());
    v[4..8].copy_from_slice(&[127, 0, 0, 1]);
    v
}

/// Complete request `id` with `res`; `more` keeps a multishot request armed.
/// Applies the kernel's memory/descriptor effects for successful results.
/// For descriptor-creating requests a non-negative `res` is replaced by the new
/// descriptor.
pub fn complete(s: &mut Simk, id: u64, res: i32, more: bool) -> Cqe {
    let (sqe, ring_fd, state) = {
        let r = &s.reqs[&id];
        (r.sqe.clone(), r.ring, r.state)
    };
    assert!(state != ReqState::Done, "simk: completing a finished request");
    if state == ReqState::AwaitNotif {
        return post_notif(s, id);
    }
    let mut res = res;
    let mut flags = 0u32;
    let mut produced: Vec<u8> = Vec::new();
    let op = sqe.opcode();
    let freed = alloc::was_freed(id);
    let touch = !freed || crate::mon::alloc::PASS_THROUGH_ONLY || true;
    if res >= 0 && touch {
        unsafe {
            match op {
                OP_READ | OP_RECV | OP_READ_MULTISHOT => {
                    if sqe.buffer_select() {
                        match select_buffer(s, ring_fd, sqe.buf_group(), id) {
                            Ok((bid, addr, len)) => {
                                let n = (res as usize).min(len as usize);
                                res = n as i32;
                                produced = pattern_vec(id ^ (u64::from(bid) << 32) ^ (s.reqs[&id].posted.len() as u64) << 48, n);
                                wr_bytes(addr, &produced);
                                s.counters.mem_writes += 1;
                                flags |= CQE_F_BUFFER | (u32::from(bid) << CQE_BUFFER_SHIFT);
                            }
                            Err(e) => res = -e,
                        }
                    } else {
                        let n = (res as usize).min(sqe.len() as usize);
                        res = n as i32;
                        produced = pattern_vec(id, n);
                        wr_bytes(sqe.addr(), &produced);
                        s.counters.mem_writes += 1;
                    }
                }
                OP_READV => {
                    let total = res as usize;
                    let data = pattern_vec(id, total);
                    res = scatter(sqe.addr(), sqe.len() as usize, &data) as i32;
                    produced = data[..res as usize].to_vec();
                    s.counters.mem_writes += 1;
                }
                OP_RECVMSG => {
                    let m = sqe.addr();
                    let iov = rd_u64(m + 16);
                    let iovlen = rd_u64(m + 24) as usize;
                    if sqe.buffer_select() {
                        match select_buffer(s, ring_fd, sqe.buf_group(), id) {
                            Ok((bid, addr, len)) => {
                                let n = (res as usize).min(len as usize);
                                res = n as i32;
                                produced = pattern_vec(id ^ (u64::from(bid) << 32), n);
                                wr_bytes(addr, &produced);
                                flags |= CQE_F_BUFFER | (u32::from(bid) << CQE_BUFFER_SHIFT);
                            }
                            Err(e) => res = -e,
                        }
                    } else {
                        let data = pattern_vec(id, res as usize);
                        res = scatter(iov, iovlen, &data) as i32;
                        produced = data[..res as usize].to_vec();
                    }
                    s.counters.mem_writes += 1;
                    if res >= 0 {
                        let name = rd_u64(m);
                        let cap = rd_u32(m + 8) as usize;
                        if name != 0 {
                            let a = default_sockaddr(id);
                            let n = a.len().min(cap);
                            wr_bytes(name, &a[..n]);
                            wr_u32(m + 8, a.len() as u32);
                        }
                        wr_i32(m + 48, 0); // msg_flags
                    }
                }
                OP_WRITE | OP_SEND | OP_SEND_ZC => {
                    let n = (res as usize).min(sqe.len() as usize);
                    res = n as i32;
                    let bytes = rd_bytes(sqe.addr(), n);
                    s.counters.mem_reads += 1;
                    s.reqs.get_mut(&id).unwrap().captured = bytes;
                }
                OP_WRITEV => {
                    let bytes = gather(sqe.addr(), sqe.len() as usize, res as usize);
                    res = bytes.len() as i32;
                    s.counters.mem_reads += 1;
                    s.reqs.get_mut(&id).unwrap().captured = bytes;
                }
                OP_SENDMSG | OP_SENDMSG_ZC => {
                    let m = sqe.addr();
                    let iov = rd_u64(m + 16);
                    let iovlen = rd_u64(m + 24) as usize;
                    let bytes = gather(iov, iovlen, res as usize);
                    res = bytes.len() as i32;
                    s.counters.mem_reads += 1;
                    s.reqs.get_mut(&id).unwrap().captured = bytes;
                }
                OP_ACCEPT => {
                    let direct = sqe.file_index() == FILE_INDEX_ALLOC;
                    match new_descriptor(s, ring_fd, id, direct, "accept") {
                        Ok(fd) => {
                            res = fd;
                            if sqe.addr() != 0 && sqe.off() != 0 {
                                let cap = rd_u32(sqe.off()) as usize;
                                let a = default_sockaddr(id ^ (s.reqs[&id].posted.len() as u64) << 8);
                                let n = a.len().min(cap);
                                wr_bytes(sqe.addr(), &a[..n]);
                                wr_u32(sqe.off(), a.len() as u32);
                                s.counters.mem_writes += 1;
                            }
                        }
                        Err(e) => res = -e,
                    }
                }
                OP_SOCKET | OP_OPENAT => {
                    let direct = sqe.file_index() == FILE_INDEX_ALLOC;
                    match new_descriptor(s, ring_fd, id, direct, if op == OP_SOCKET { "socket" } else { "open" }) {
                        Ok(fd) => res = fd,
                        Err(e) => res = -e,
                    }
                }
                OP_FIXED_FD_INSTALL => match new_descriptor(s, ring_fd, id, false, "fd-install") {
                    Ok(fd) => res = fd,
                    Err(e) => res = -e,
                },
                OP_PIPE => {
                    let direct = sqe.file_index() == FILE_INDEX_ALLOC;
                    let a = new_descriptor(s, ring_fd, id, direct, "pipe");
                    let b = new_descriptor(s, ring_fd, id, direct, "pipe");
                    match (a, b) {
                        (Ok(a), Ok(b)) => {
                            wr_i32(sqe.addr(), a);
                            wr_i32(sqe.addr() + 4, b);
                            s.counters.mem_writes += 1;
                            res = 0;
                        }
                        (Err(e), _) | (_, Err(e)) => res = -e,
                    }
                }
                OP_FILES_UPDATE => {
                    // Only the allocate form (offset == FILE_INDEX_ALLOC) is used by a10.
                    if sqe.off() as u32 == FILE_INDEX_ALLOC {
                        let mut done = 0;
                        for i in 0..sqe.len() as u64 {
                            match new_descriptor(s, ring_fd, id, true, "to-direct") {
                                Ok(idx) => {
                                    wr_i32(sqe.addr() + 4 * i, idx);
                                    done += 1;
                                }
                                Err(e) => {
                                    if done == 0 {
                                        done = -e;
                                    }
                                    break;
                                }
                            }
                        }
                        s.counters.mem_writes += 1;
                        res = done;
                    } else {
                        res = -libc::EINVAL;
                    }
                }
                OP_CLOSE => {
                    res = do_close(s, ring_fd, &sqe);
                }
                OP_STATX => {
                    wr_bytes(sqe.off(), &pattern_vec(id, STATX_SIZE));
                    s.counters.mem_writes += 1;
                    res = 0;
                }
                OP_WAITID => {
                    wr_bytes(sqe.off(), &pattern_vec(id, SIGINFO_SIZE));
                    s.counters.mem_writes += 1;
                    res = 0;
                }
                OP_URING_CMD => match sqe.off() as u32 {
                    SOCKET_URING_OP_GETSOCKOPT => {
                        let n = (res as usize).min(sqe.file_index() as usize);
                        produced = pattern_vec(id, n);
                        wr_bytes(sqe.addr3(), &produced);
                        s.counters.mem_writes += 1;
                        res = n as i32;
                    }
                    SOCKET_URING_OP_GETSOCKNAME => {
                        let cap = rd_u32(sqe.addr3()) as usize;
                        let a = default_sockaddr(id);
                        let n = a.len().min(cap);
                        wr_bytes(sqe.addr(), &a[..n]);
                        wr_u32(sqe.addr3(), a.len() as u32);
                        s.counters.mem_writes += 1;
                        res = 0;
                    }
                    _ => {}
                },
                _ => {}
            }
        }
    }
    if res < 0 && touch {
        // A failed attempt may leave anything in the buffers it was given.
        unsafe {
            match op {
                OP_READ | OP_RECV if !sqe.buffer_select() => {
                    wr_bytes(sqe.addr(), &pattern_vec(id ^ 0xBAD0_0000, sqe.len() as usize));
                    s.counters.mem_writes += 1;
                }
                OP_READV => {
                    let total: usize = regions(&sqe).iter().filter(|r| r.2 == what::DATA).map(|r| r.1).sum();
                    scatter(sqe.addr(), sqe.len() as usize, &pattern_vec(id ^ 0xBAD0_0000, total));
                    s.counters.mem_writes += 1;
                }
                _ => {}
            }
        }
    }
    let multishot = s.reqs[&id].multishot;
    let zc = s.reqs[&id].zc;
    let mut final_ = true;
    if multishot && more && res >= 0 {
        flags |= CQE_F_MORE;
        final_ = false;
    }
    if zc && more {
        // Result now, notification later.
        flags |= CQE_F_MORE;
        final_ = false;
    }
    let skip = sqe.flags() & IOSQE_CQE_SKIP_SUCCESS != 0 && res >= 0;
    let cqe = Cqe { user_data: sqe.user_data(), res, flags };
    {
        let r = s.reqs.get_mut(&id).unwrap();
        r.posted.push(cqe);
        r.produced.push(produced);
        if final_ {
            r.state = ReqState::Done;
        } else if zc {
            r.state = ReqState::AwaitNotif;
        }
    }
    // The operation state was freed while the kernel still referenced it: a10's
    // completion handler would dereference freed (quarantined, poisoned) memory,
    // which natively shows up as a hang on a poisoned lock. The violation is
    // already recorded; do not deliver. Sanitizer/Miri flavours do deliver so
    // that the tool reports the access itself.
    let state_freed = !alloc::PASS_THROUGH_ONLY && alloc::was_freed_what(id, what::STATE);
    let deliver = !skip && !state_freed;
    if final_ {
        if deliver {
            // Buffers are the caller's again; the operation state stays
            // referenced until a10 consumed the completion.
            alloc::release_except(id, what::STATE);
        } else {
            alloc::release(id);
        }
    }
    if deliver {
        super::enter::post_cqe_for(s, ring_fd, cqe, if final_ { id } else { 0 });
    }
    cqe
}

/// Post the zero-copy notification of request `id`.
pub fn post_notif(s: &mut Simk, id: u64) -> Cqe {
    let (ud, ring_fd) = {
        let r = s.reqs.get_mut(&id).unwrap();
        assert!(r.state == ReqState::AwaitNotif);
        r.state = ReqState::Done;
        (r.sqe.user_data(), r.ring)
    };
    // The kernel is done with the buffer only now.
    alloc::release_except(id, what::STATE);
    let garbage = (s.rng.next() & 0x7fff_ffff) as i32;
    let cqe = Cqe { user_data: ud, res: if s.rng.chance(1, 2) { 0 } else { garbage }, flags: CQE_F_NOTIF };
    s.reqs.get_mut(&id).unwrap().posted.push(cqe);
    s.reqs.get_mut(&id).unwrap().produced.push(Vec::new());
    super::enter::post_cqe_for(s, ring_fd, cqe, id);
    cqe
}

/// Post a raw completion that belongs to no request (bookkeeping entries).
pub fn post_raw(s: &mut Simk, ring_fd: i32, cqe: Cqe) {
    post_cqe(s, ring_fd, cqe);
}

/// Complete a read-like request with exactly `data` (scripted kernel content).
/// With `decoy` the rest of the buffer the request offered is filled with it
/// (the memory is the kernel's until the completion is posted).
pub fn complete_data(s: &mut Simk, id: u64, data: &[u8], decoy: Option<&[u8]>) -> Cqe {
    let (sqe, ring_fd) = {
        let r = &s.reqs[&id];
        (r.sqe.clone(), r.ring)
    };
    assert!(matches!(sqe.opcode(), OP_READ | OP_RECV) && !sqe.buffer_select(), "complete_data: unsupported request");
    let n = data.len().min(sqe.len() as usize);
    unsafe {
        wr_bytes(sqe.addr(), &data[..n]);
        if let Some(d) = decoy {
            let rest = sqe.len() as usize - n;
            let fill: Vec<u8> = d.iter().copied().cycle().take(rest).collect();
            wr_bytes(sqe.addr() + n as u64, &fill);
        }
    }
    s.counters.mem_writes += 1;
    let cqe = Cqe { user_data: sqe.user_data(), res: n as i32, flags: 0 };
    {
        let r = s.reqs.get_mut(&id).unwrap();
        r.posted.push(cqe);
        r.produced.push(data[..n].to_vec());
        r.state = ReqState::Done;
    }
    alloc::release_except(id, what::STATE);
    super::enter::post_cqe_for(s, ring_fd, cqe, id);
    cqe
}
