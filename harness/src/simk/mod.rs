//! simk — the simulated io_uring kernel side.
//!
//! Owns the ring memory, consumes submissions, keeps requests in flight as long
//! as the scenario wants and posts completions in any order with any result.

#![allow(dead_code)]

pub mod abi;
pub mod effects;
pub mod enter;
pub mod mem;

use std::collections::{HashMap, VecDeque};
use std::ffi::{c_int, c_uint, c_void};
use std::sync::atomic::Ordering;
use std::sync::{Mutex, MutexGuard};

use crate::mon::alloc::{self, MonGuard};
use crate::mon::fds;
use crate::rng::Rng;
use abi::*;
use mem::{Region, RegionState};

#[derive(Clone, Debug)]
pub struct Sqe(pub [u8; 64]);

impl Sqe {
    pub fn u8_at(&self, o: usize) -> u8 {
        self.0[o]
    }
    pub fn u16_at(&self, o: usize) -> u16 {
        u16::from_le_bytes([self.0[o], self.0[o + 1]])
    }
    pub fn u32_at(&self, o: usize) -> u32 {
        u32::from_le_bytes(self.0[o..o + 4].try_into().unwrap())
    }
    pub fn u64_at(&self, o: usize) -> u64 {
        u64::from_le_bytes(self.0[o..o + 8].try_into().unwrap())
    }
    pub fn opcode(&self) -> u8 {
        self.u8_at(SQE_OPCODE)
    }
    pub fn flags(&self) -> u8 {
        self.u8_at(SQE_FLAGS)
    }
    pub fn ioprio(&self) -> u16 {
        self.u16_at(SQE_IOPRIO)
    }
    pub fn fd(&self) -> i32 {
        self.u32_at(SQE_FD) as i32
    }
    pub fn off(&self) -> u64 {
        self.u64_at(SQE_OFF)
    }
    pub fn addr(&self) -> u64 {
        self.u64_at(SQE_ADDR)
    }
    pub fn len(&self) -> u32 {
        self.u32_at(SQE_LEN)
    }
    pub fn op_flags(&self) -> u32 {
        self.u32_at(SQE_OPFLAGS)
    }
    pub fn user_data(&self) -> u64 {
        self.u64_at(SQE_USER_DATA)
    }
    pub fn buf_group(&self) -> u16 {
        self.u16_at(SQE_BUF_GROUP)
    }
    pub fn file_index(&self) -> u32 {
        self.u32_at(SQE_FILE_INDEX)
    }
    pub fn addr3(&self) -> u64 {
        self.u64_at(SQE_ADDR3)
    }
    pub fn is_zero(&self) -> bool {
        self.0.iter().all(|b| *b == 0)
    }
    pub fn buffer_select(&self) -> bool {
        self.flags() & IOSQE_BUFFER_SELECT != 0
    }
    pub fn is_multishot(&self) -> bool {
        match self.opcode() {
            OP_READ_MULTISHOT => true,
            OP_RECV | OP_RECVMSG => self.ioprio() & RECV_MULTISHOT != 0,
            OP_ACCEPT => self.ioprio() & ACCEPT_MULTISHOT != 0,
            OP_POLL_ADD => self.len() & POLL_ADD_MULTI != 0,
            _ => false,
        }
    }
    pub fn is_zc(&self) -> bool {
        matches!(self.opcode(), OP_SEND_ZC | OP_SENDMSG_ZC)
    }
    pub fn describe(&self) -> String {
        format!(
            "{}(fd={},off={:#x},len={},opf={:#x},fl={:#x},prio={},ud={:#x})",
            op_name(self.opcode()),
            self.fd(),
            self.off(),
            self.len(),
            self.op_flags(),
            self.flags(),
            self.ioprio(),
            self.user_data()
        )
    }
}

#[derive(Copy, Clone, Debug, PartialEq, Eq)]
pub struct Cqe {
    pub user_data: u64,
    pub res: i32,
    pub flags: u32,
}

#[derive(Copy, Clone, Debug, PartialEq, Eq)]
pub enum ReqState {
    InFlight,
    /// Zero-copy: result posted with F_MORE, notification outstanding.
    AwaitNotif,
    Done,
}

#[derive(Clone, Debug)]
pub struct Req {
    pub id: u64,
    pub ring: i32,
    pub sqe: Sqe,
    pub state: ReqState,
    pub multishot: bool,
    pub zc: bool,
    /// Everything posted for this request.
    pub posted: Vec<Cqe>,
    /// Bytes the kernel wrote into user buffers, one entry per posted completion.
    pub produced: Vec<Vec<u8>>,
    /// Bytes the kernel "read" from user memory (write/send payloads).
    pub captured: Vec<u8>,
    /// Descriptors created for this request: (number, direct).
    pub created: Vec<(i32, bool)>,
    /// Owner tag given by the harness (op id), 0 if unknown.
    pub owner: u64,
    pub thread: u64,
    pub clock: u64,
}

#[derive(Debug)]
pub struct Mapping {
    pub which: u8,
    pub addr: usize,
    pub len: usize,
    pub mapped: bool,
}

#[derive(Debug)]
pub struct PbufRing {
    pub ring_addr: u64,
    pub entries: u32,
    pub khead: u16,
    /// Tail last observed by the kernel.
    pub seen_tail: u16,
    /// Buffers handed out in completions and not yet offered again.
    pub handed_out: HashMap<u16, u64>, // bid -> req id
    /// bid -> (addr, len) as first offered.
    pub layout: HashMap<u16, (u64, u32)>,
    pub hold_id: u64,
}

#[derive(Copy, Clone, Debug, PartialEq, Eq)]
pub enum CancelOutcome {
    /// Target completes with -ECANCELED, cancel request succeeds.
    Cancelled,
    /// Cancel request gets -ENOENT, target untouched.
    NotFound,
    /// Cancel request gets -EALREADY, target untouched.
    Already,
}

#[derive(Debug)]
pub struct Ring {
    pub fd: i32,
    pub flags: u32,
    pub sq_entries: u32,
    pub cq_entries: u32,
    pub sq_ring: Region,
    pub cq_ring: Region,
    pub sqes: Region,
    /// head tail ring_mask ring_entries flags dropped array
    pub sq_off: [u32; 7],
    /// head tail ring_mask ring_entries overflow cqes flags
    pub cq_off: [u32; 7],
    pub mappings: Vec<Mapping>,
    pub sq_head: u32,
    pub cq_tail: u32,
    /// Last completion-queue head published by a10 that the kernel has seen.
    pub cq_seen_head: u32,
    pub backlog: VecDeque<(Cqe, u64)>,
    /// Final completions published but not yet consumed by a10: (position, request).
    pub state_watch: Vec<(u32, u64)>,
    pub disabled: bool,
    pub owner_thread: Option<u64>,
    pub pbufs: HashMap<u16, PbufRing>,
    pub files: Option<Vec<Option<u64>>>,
    pub dead: bool,
    pub trap_user_data: u64,
    pub consumed: u64,
    pub posted: u64,
    pub enters: u64,
}

impl Ring {
    pub fn sqpoll(&self) -> bool {
        self.flags & SETUP_SQPOLL != 0
    }
    pub fn single_issuer(&self) -> bool {
        self.flags & SETUP_SINGLE_ISSUER != 0
    }
    pub fn a10_sq_tail(&self) -> u32 {
        unsafe { self.sq_ring.atomic_u32(self.sq_off[1]).load(Ordering::Acquire) }
    }
    pub fn a10_cq_head(&self) -> u32 {
        unsafe { self.cq_ring.atomic_u32(self.cq_off[0]).load(Ordering::Acquire) }
    }
    pub fn usable(&self) -> bool {
        !self.dead && self.sq_ring.usable() && self.cq_ring.usable() && self.sqes.usable()
    }
    /// The kernel can still consume submissions (the completion ring mapping
    /// of the user may be gone already, the kernel's own memory is not).
    pub fn can_consume(&self) -> bool {
        !self.dead && self.sq_ring.usable() && self.sqes.usable()
    }
}

/// Configuration of the next rings / of the kernel behaviour.
#[derive(Debug, Clone)]
pub struct Knobs {
    /// Initial value of the SQ head/tail and CQ head/tail counters.
    pub sq_start: u32,
    pub cq_start: u32,
    /// Feature bits to withhold.
    pub withhold_features: u32,
    /// Randomise the sq_off/cq_off offsets from this seed (0: fixed layout).
    pub layout_seed: u64,
    /// Fail `io_uring_setup` with this errno.
    pub setup_errno: i32,
    /// Fail the n-th (1-based) mmap call from now with ENOMEM.
    pub fail_mmap_nth: u32,
    /// Fail register calls: opcode -> errno (one shot each).
    pub register_errno: Vec<(u32, i32)>,
    /// Errors to return from the next enter calls (before doing anything).
    pub enter_errnos: VecDeque<i32>,
    /// Outcomes for the next ASYNC_CANCEL requests (default Cancelled).
    pub cancel_outcomes: VecDeque<CancelOutcome>,
    pub default_cancel: CancelOutcome,
    /// Complete IORING_OP_CLOSE requests of operations (user_data > 3) inline.
    pub auto_close_ops: bool,
    /// Limit on the number of entries consumed per enter (0: no limit).
    pub consume_limit: u32,
    /// Number of CPUs the kernel pretends to have (SQ_AFF validation).
    pub ncpus: u32,
    /// Sync cancel: number of in-flight requests that complete normally
    /// (result 0 / short) instead of being cancelled.
    pub sync_cancel_normal: u32,
    /// Treat an infinite wait with nothing to deliver as an event instead of
    /// blocking.
    pub inject_cq_garbage: bool,
    /// SQPOLL rings: io_uring_enter itself submits nothing (like the real kernel),
    /// only the simulated kernel thread does. Off by default so that
    /// single-threaded scenarios do not need a kernel thread.
    pub sqpoll_strict: bool,
    /// Under the baton scheduler: a caller returning from `io_uring_enter` on a
    /// kernel-thread ring with unconsumed submissions yields every n-th time.
    pub sqpoll_yield_every: u32,
}

impl Default for Knobs {
    fn default() -> Knobs {
        Knobs {
            sq_start: 0,
            cq_start: 0,
            withhold_features: 0,
            layout_seed: 0,
            setup_errno: 0,
            fail_mmap_nth: 0,
            register_errno: Vec::new(),
            enter_errnos: VecDeque::new(),
            cancel_outcomes: VecDeque::new(),
            default_cancel: CancelOutcome::Cancelled,
            auto_close_ops: false,
            consume_limit: 0,
            ncpus: 16,
            sync_cancel_normal: 0,
            inject_cq_garbage: false,
            sqpoll_strict: false,
            sqpoll_yield_every: 1,
        }
    }
}

/// Something the kernel observed that an oracle wants to know about.
#[derive(Clone, Debug)]
pub struct KViolation {
    pub prop: &'static str,
    pub sig: String,
    pub detail: String,
}

#[derive(Default, Debug, Clone)]
pub struct Counters {
    pub setups: u64,
    pub setups_failed: u64,
    pub mmaps: u64,
    pub mmaps_failed: u64,
    pub munmaps: u64,
    pub enters: u64,
    pub sqes: u64,
    pub cqes: u64,
    pub cqes_backlogged: u64,
    pub cancels: u64,
    pub closes: u64,
    pub msg_rings: u64,
    pub registers: u64,
    pub sync_cancels: u64,
    pub mem_writes: u64,
    pub mem_reads: u64,
    pub would_block: u64,
    pub traps_written: u64,
    pub pbuf_selects: u64,
    pub pbuf_returns: u64,
}

pub struct Simk {
    pub sqpoll_spins: u64,
    pub rings: HashMap<i32, Ring>,
    pub dead_rings: Vec<Ring>,
    pub reqs: HashMap<u64, Req>,
    pub next_req: u64,
    pub knobs: Knobs,
    pub violations: Vec<KViolation>,
    pub counters: Counters,
    pub clock: u64,
    /// Setup parameter blocks seen: (requested entries, flags, cq_entries,
    /// sq_thread_cpu, sq_thread_idle, wq_fd).
    pub setup_log: Vec<[u32; 6]>,
    pub register_log: Vec<(i32, u32, u32)>,
    pub enter_log: Vec<(i32, u32, u32, u32, bool, i32)>,
    pub rng: Rng,
    /// Hook called at the end of every enter (after consumption) to let a
    /// scenario post completions "while in the kernel".
    pub on_enter: Option<Box<dyn FnMut(&mut Simk, i32) + Send>>,
    /// Direct descriptor objects: id -> open.
    pub direct_files: HashMap<u64, bool>,
    /// Direct descriptor object -> request that created it.
    pub direct_creator: HashMap<u64, u64>,
    pub next_direct_id: u64,
    /// Pending owner tags: user_data -> owner (set by the harness after a poll).
    pub owners: HashMap<u64, u64>,
    /// Threads blocked in enter (scheduler mode) are woken through this.
    pub blocked_waiters: u64,
    /// A violation made further kernel activity meaningless.
    pub broken: bool,
}

static SIMK: Mutex<Option<Simk>> = Mutex::new(None);

pub struct SimkGuard {
    guard: MutexGuard<'static, Option<Simk>>,
    _mon: MonGuard,
}

impl std::ops::Deref for SimkGuard {
    type Target = Simk;
    fn deref(&self) -> &Simk {
        self.guard.as_ref().unwrap()
    }
}
impl std::ops::DerefMut for SimkGuard {
    fn deref_mut(&mut self) -> &mut Simk {
        self.guard.as_mut().unwrap()
    }
}

/// Lock the simulated kernel.
pub fn k() -> SimkGuard {
    let mon = MonGuard::new();
    let mut guard = SIMK.lock().unwrap_or_else(|e| e.into_inner());
    if guard.is_none() {
        *guard = Some(Simk::new(1));
    }
    SimkGuard { guard, _mon: mon }
}

/// Like `k()` but fails if the calling thread (or another one) holds the lock.
pub fn try_k() -> Result<SimkGuard, ()> {
    let mon = MonGuard::new();
    match SIMK.try_lock() {
        Ok(mut guard) => {
            if guard.is_none() {
                *guard = Some(Simk::new(1));
            }
            Ok(SimkGuard { guard, _mon: mon })
        }
        Err(_) => Err(()),
    }
}

pub fn thread_id() -> u64 {
    thread_local! { static ID: u64 = {
        static NEXT: std::sync::atomic::AtomicU64 = std::sync::atomic::AtomicU64::new(1);
        NEXT.fetch_add(1, Ordering::Relaxed)
    }; }
    ID.try_with(|i| *i).unwrap_or(0)
}

pub fn set_errno(e: i32) {
    unsafe { *libc::__errno_location() = e };
}

/// Install the simulated kernel into a10.
pub fn install() {
    a10::verif::install(a10::verif::Kernel {
        setup: k_setup,
        register: k_register,
        enter: enter::k_enter,
        mmap: k_mmap,
        munmap: k_munmap,
    });
}

pub fn uninstall() {
    a10::verif::uninstall();
}

/// The entry points of the simulated kernel (for drivers other than a10).
pub fn table() -> a10::verif::Kernel {
    a10::verif::Kernel {
        setup: k_setup,
        register: k_register,
        enter: enter::k_enter,
        mmap: k_mmap,
        munmap: k_munmap,
    }
}

/// Reset the kernel for a new history.
pub fn reset(seed: u64) {
    let mut g = k();
    let old = std::mem::replace(&mut *g, Simk::new(seed));
    drop(g);
    let _m = MonGuard::new();
    old.teardown();
    alloc::release_all();
    fds::reset();
}

impl Simk {
    pub fn new(seed: u64) -> Simk {
        Simk {
            sqpoll_spins: 0,
            rings: HashMap::new(),
            dead_rings: Vec::new(),
            reqs: HashMap::new(),
            next_req: 1,
            knobs: Knobs::default(),
            violations: Vec::new(),
            counters: Counters::default(),
            clock: 1,
            setup_log: Vec::new(),
            register_log: Vec::new(),
            enter_log: Vec::new(),
            rng: Rng::new(seed ^ 0x51_4D_4B),
            on_enter: None,
            direct_files: HashMap::new(),
            direct_creator: HashMap::new(),
            next_direct_id: 1,
            owners: HashMap::new(),
            blocked_waiters: 0,
            broken: false,
        }
    }

    fn teardown(mut self) {
        for (_, mut r) in self.rings.drain() {
            r.sq_ring.release();
            r.cq_ring.release();
            r.sqes.release();
        }
        for mut r in self.dead_rings.drain(..) {
            r.sq_ring.release();
            r.cq_ring.release();
            r.sqes.release();
        }
    }

    pub fn tick(&mut self) -> u64 {
        self.clock += 1;
        self.clock
    }

    pub fn violation(&mut self, prop: &'static str, sig: impl Into<String>, detail: impl Into<String>) {
        self.violations.push(KViolation {
            prop,
            sig: sig.into(),
            detail: detail.into(),
        });
    }

    pub fn take_violations(&mut self) -> Vec<KViolation> {
        std::mem::take(&mut self.violations)
    }

    pub fn ring(&mut self, fd: i32) -> &mut Ring {
        self.rings.get_mut(&fd).expect("simk: unknown ring")
    }

    pub fn only_ring_fd(&self) -> i32 {
        let mut fds: Vec<i32> = self.rings.keys().copied().collect();
        fds.sort();
        *fds.first().expect("simk: no ring")
    }

    /// Requests currently in flight (any state but Done), ordered by id.
    pub fn inflight(&self) -> Vec<u64> {
        let mut v: Vec<u64> = self
            .reqs
            .values()
            .filter(|r| r.state != ReqState::Done)
            .map(|r| r.id)
            .collect();
        v.sort();
        v
    }

    pub fn inflight_of(&self, ring: i32) -> Vec<u64> {
        let mut v: Vec<u64> = self
            .reqs
            .values()
            .filter(|r| r.state != ReqState::Done && r.ring == ring)
            .map(|r| r.id)
            .collect();
        v.sort();
        v
    }

    pub fn req(&self, id: u64) -> &Req {
        self.reqs.get(&id).expect("simk: unknown request")
    }

    /// Most recent in-flight request with this user_data.
    pub fn find_by_user_data(&self, ud: u64) -> Option<u64> {
        self.reqs
            .values()
            .filter(|r| r.state != ReqState::Done && r.sqe.user_data() == ud)
            .map(|r| r.id)
            .max()
    }

    /// Called when the OS-level descriptor of a ring was closed.
    pub fn ring_fd_closed(&mut self, fd: i32) {
        if let Some(mut ring) = self.rings.remove(&fd) {
            ring.dead = true;
            // The kernel drops all requests of the ring: nothing is touched any more.
            let ids: Vec<u64> = self.inflight_of(fd);
            for id in ids {
                if let Some(r) = self.reqs.get_mut(&id) {
                    r.state = ReqState::Done;
                }
                alloc::release(id);
            }
            for (_, p) in ring.pbufs.drain() {
                alloc::release(p.hold_id);
            }
            for (_, req) in ring.state_watch.drain(..) {
                alloc::release(req);
            }
            // Mappings stay valid until unmapped, keep the ring for the ledger.
            self.dead_rings.push(ring);
        }
    }

    pub fn sync_fd_events(&mut self) {
        for fd in fds::take_ring_fd_closed() {
            self.ring_fd_closed(fd);
        }
        // Miri: there is no close(2) interposer (Miri implements close itself), ask
        // whether the descriptors of the live rings are still open.
        #[cfg(miri)]
        {
            let closed: Vec<i32> = self.rings.keys().copied().filter(|fd| !fds::os_open(*fd)).collect();
            for fd in closed {
                self.ring_fd_closed(fd);
            }
        }
    }

    /// Mapping ledger check at the end of a history: every region mapped must
    /// have been unmapped exactly once.
    pub fn mapping_leaks(&self) -> Vec<String> {
        let mut out = Vec::new();
        for r in self.rings.values().chain(self.dead_rings.iter()) {
            for m in &r.mappings {
                if m.mapped {
                    out.push(format!("ring {} region {} len {} still mapped", r.fd, m.which, m.len));
                }
            }
        }
        out
    }
}

// ---------------------------------------------------------------------------
// io_uring_setup

fn roundup_pow2(x: u32) -> u32 {
    x.next_power_of_two()
}

unsafe fn k_setup(entries: c_uint, params: *mut c_void) -> c_int {
    let mut g = k();
    let s = &mut *g;
    s.counters.setups += 1;
    let p = params.cast::<u8>();
    let rd = |o: usize| unsafe { p.add(o).cast::<u32>().read_unaligned() };
    let wr = |o: usize, v: u32| unsafe { p.add(o).cast::<u32>().write_unaligned(v) };
    let flags = rd(P_FLAGS);
    let req_cq = rd(P_CQ_ENTRIES);
    let cpu = rd(P_SQ_THREAD_CPU);
    let wq_fd = rd(P_WQ_FD);
    s.setup_log
        .push([entries, flags, req_cq, cpu, rd(P_SQ_THREAD_IDLE), wq_fd]);

    let fail = |s: &mut Simk, e: i32| {
        s.counters.setups_failed += 1;
        set_errno(e);
        -1
    };
    if s.knobs.setup_errno != 0 {
        let e = s.knobs.setup_errno;
        return fail(s, e);
    }
    for i in 0..3 {
        if rd(P_RESV + 4 * i) != 0 {
            return fail(s, libc::EINVAL);
        }
    }
    if flags & !SETUP_KNOWN != 0 {
        return fail(s, libc::EINVAL);
    }
    if entries == 0 {
        return fail(s, libc::EINVAL);
    }
    let mut sq_entries = entries;
    if sq_entries > MAX_ENTRIES {
        if flags & SETUP_CLAMP == 0 {
            return fail(s, libc::EINVAL);
        }
        sq_entries = MAX_ENTRIES;
    }
    let sq_entries = roundup_pow2(sq_entries);
    let cq_entries = if flags & SETUP_CQSIZE != 0 {
        if req_cq == 0 {
            return fail(s, libc::EINVAL);
        }
        let mut c = req_cq;
        if c > MAX_CQ_ENTRIES {
            if flags & SETUP_CLAMP == 0 {
                return fail(s, libc::EINVAL);
            }
            c = MAX_CQ_ENTRIES;
        }
        let c = roundup_pow2(c);
        if c < sq_entries {
            return fail(s, libc::EINVAL);
        }
        c
    } else {
        2 * sq_entries
    };
    if flags & SETUP_SQ_AFF != 0 {
        if flags & SETUP_SQPOLL == 0 {
            return fail(s, libc::EINVAL);
        }
        if cpu >= s.knobs.ncpus {
            return fail(s, libc::EINVAL);
        }
    }
    if flags & SETUP_DEFER_TASKRUN != 0
        && (flags & SETUP_SINGLE_ISSUER == 0 || flags & SETUP_SQPOLL != 0)
    {
        return fail(s, libc::EINVAL);
    }
    if flags & SETUP_SQPOLL != 0 && flags & (SETUP_COOP_TASKRUN | SETUP_TASKRUN_FLAG) != 0 {
        return fail(s, libc::EINVAL);
    }
    if flags & SETUP_TASKRUN_FLAG != 0 && flags & (SETUP_COOP_TASKRUN | SETUP_DEFER_TASKRUN) == 0 {
        return fail(s, libc::EINVAL);
    }
    if flags & SETUP_ATTACH_WQ != 0 {
        if !s.rings.contains_key(&(wq_fd as i32)) {
            let e = if fds::state(wq_fd as i32).is_some_and(|st| st.closes.is_empty()) || fds::os_open(wq_fd as i32) {
                libc::EINVAL
            } else {
                libc::ENXIO
            };
            return fail(s, e);
        }
        // A kernel-thread ring can only share another ring's kernel thread.
        if flags & SETUP_SQPOLL != 0 && !s.rings[&(wq_fd as i32)].sqpoll() {
            return fail(s, libc::EINVAL);
        }
    }
    if flags & (SETUP_SQE128 | SETUP_CQE32 | SETUP_NO_MMAP | SETUP_IOPOLL) != 0 {
        // Not modelled; a10 never asks for them.
        return fail(s, libc::EINVAL);
    }

    // Layout of the rings.
    let (sq_off, cq_off) = if s.knobs.layout_seed != 0 {
        let mut r = Rng::new(s.knobs.layout_seed);
        // 12 distinct 64-byte cells in the first 1024 bytes.
        let mut cells: Vec<u32> = (0..16).collect();
        r.shuffle(&mut cells);
        let c = |i: usize, r: &mut Rng| cells[i] * 64 + 4 * r.below(16) as u32;
        let sq = [c(0, &mut r), c(1, &mut r), c(2, &mut r), c(3, &mut r), c(4, &mut r), c(5, &mut r), 0];
        let cqes = 1024 + 64 * r.below(8) as u32;
        let cq = [c(6, &mut r), c(7, &mut r), c(8, &mut r), c(9, &mut r), c(10, &mut r), cqes, c(11, &mut r)];
        (sq, cq)
    } else {
        // Same as struct io_rings on x86-64.
        ([0u32, 4, 16, 24, 36, 32, 0], [8u32, 12, 20, 28, 44, 64, 40])
    };
    let mut sq_off = sq_off;
    // The real kernel rounds the ring memory up to whole pages (and the
    // submission and completion ring are one allocation); a10 maps
    // `array + 4 * entries` bytes, which is inside it.
    let sq_ring_len = if flags & SETUP_NO_SQARRAY == 0 {
        sq_off[6] = 2048;
        mem::round_page(2048 + 4 * sq_entries as usize)
    } else {
        mem::round_page((2048 + CQE_SIZE * cq_entries as usize).max(4 * sq_entries as usize))
    };
    let cq_ring_len = cq_off[5] as usize + CQE_SIZE * cq_entries as usize;

    let fd = fds::issue("ring");
    let sq_ring = Region::new(sq_ring_len);
    let cq_ring = Region::new(cq_ring_len);
    let sqes = Region::new(SQE_SIZE * sq_entries as usize);
    let ring = Ring {
        fd,
        flags,
        sq_entries,
        cq_entries,
        sq_ring,
        cq_ring,
        sqes,
        sq_off,
        cq_off,
        mappings: Vec::new(),
        sq_head: s.knobs.sq_start,
        cq_tail: s.knobs.cq_start,
        cq_seen_head: s.knobs.cq_start,
        backlog: VecDeque::new(),
        state_watch: Vec::new(),
        disabled: flags & SETUP_R_DISABLED != 0,
        owner_thread: if flags & SETUP_SINGLE_ISSUER != 0 && flags & SETUP_R_DISABLED == 0 {
            Some(thread_id())
        } else {
            None
        },
        pbufs: HashMap::new(),
        files: None,
        dead: false,
        trap_user_data: 0,
        consumed: 0,
        posted: 0,
        enters: 0,
    };
    unsafe {
        // Both rings share nothing in this model; initialise every field.
        let sq = &ring.sq_ring;
        sq.atomic_u32(sq_off[0]).store(s.knobs.sq_start, Ordering::Relaxed);
        sq.atomic_u32(sq_off[1]).store(s.knobs.sq_start, Ordering::Relaxed);
        sq.atomic_u32(sq_off[2]).store(sq_entries - 1, Ordering::Relaxed);
        sq.atomic_u32(sq_off[3]).store(sq_entries, Ordering::Relaxed);
        sq.atomic_u32(sq_off[4]).store(0, Ordering::Relaxed);
        sq.atomic_u32(sq_off[5]).store(0, Ordering::Relaxed);
        if flags & SETUP_NO_SQARRAY == 0 {
            for i in 0..sq_entries {
                sq.atomic_u32(sq_off[6] + 4 * i).store(i, Ordering::Relaxed);
            }
        }
        let cq = &ring.cq_ring;
        cq.atomic_u32(cq_off[0]).store(s.knobs.cq_start, Ordering::Relaxed);
        cq.atomic_u32(cq_off[1]).store(s.knobs.cq_start, Ordering::Relaxed);
        cq.atomic_u32(cq_off[2]).store(cq_entries - 1, Ordering::Relaxed);
        cq.atomic_u32(cq_off[3]).store(cq_entries, Ordering::Relaxed);
        cq.atomic_u32(cq_off[4]).store(0, Ordering::Relaxed);
        cq.atomic_u32(cq_off[6]).store(0, Ordering::Relaxed);
    }
    let mut ring = ring;
    for i in 0..cq_entries {
        enter::write_trap(&mut ring, i, &mut s.counters);
    }
    if flags & SETUP_SQPOLL != 0 {
        // The kernel thread starts awake.
    }
    s.rings.insert(fd, ring);

    wr(P_SQ_ENTRIES, sq_entries);
    wr(P_CQ_ENTRIES, cq_entries);
    wr(P_FEATURES, FEAT_ALL & !s.knobs.withhold_features);
    for (i, o) in sq_off.iter().enumerate() {
        wr(P_SQ_OFF + 4 * i, *o);
    }
    wr(P_SQ_OFF + 28, 0);
    wr(P_SQ_OFF + 32, 0);
    wr(P_SQ_OFF + 36, 0);
    for (i, o) in cq_off.iter().enumerate() {
        wr(P_CQ_OFF + 4 * i, *o);
    }
    wr(P_CQ_OFF + 28, 0);
    wr(P_CQ_OFF + 32, 0);
    wr(P_CQ_OFF + 36, 0);
    fd
}

// ---------------------------------------------------------------------------
// mmap / munmap of the ring regions

unsafe fn k_mmap(len: usize, _prot: c_int, _flags: c_int, fd: c_int, offset: i64) -> *mut c_void {
    let mut g = k();
    let s = &mut *g;
    s.counters.mmaps += 1;
    if s.knobs.fail_mmap_nth > 0 {
        s.knobs.fail_mmap_nth -= 1;
        if s.knobs.fail_mmap_nth == 0 {
            s.counters.mmaps_failed += 1;
            set_errno(libc::ENOMEM);
            return libc::MAP_FAILED;
        }
    }
    let Some(ring) = s.rings.get_mut(&fd) else {
        s.counters.mmaps_failed += 1;
        set_errno(libc::EBADF);
        return libc::MAP_FAILED;
    };
    let (which, region) = match offset {
        OFF_SQ_RING => (0u8, &mut ring.sq_ring),
        OFF_CQ_RING => (1u8, &mut ring.cq_ring),
        OFF_SQES => (2u8, &mut ring.sqes),
        _ => {
            s.counters.mmaps_failed += 1;
            set_errno(libc::EINVAL);
            return libc::MAP_FAILED;
        }
    };
    if len == 0 || len > region.len || region.state != RegionState::Fresh {
        // NOTE: mapping a region twice is possible on a real kernel, but a10
        // never does so; treat as an error of the model's user.
        s.counters.mmaps_failed += 1;
        set_errno(libc::EINVAL);
        return libc::MAP_FAILED;
    }
    // The completion ring and the submission entries must be mapped in full: a10 indexes them
    // with the granted sizes, and a shorter mapping only "works" as far as page rounding goes.
    let need = match which {
        1 => ring.cq_off[5] as usize + CQE_SIZE * ring.cq_entries as usize,
        2 => SQE_SIZE * ring.sq_entries as usize,
        _ => 0,
    };
    if len < need {
        let (sqe, cqe) = (ring.sq_entries, ring.cq_entries);
        s.violations.push(KViolation {
            prop: "C18",
            sig: format!("mapping-smaller-than-granted-queue:region={which}"),
            detail: format!("region {which} mapped with {len} bytes, the kernel granted sq={sqe} cq={cqe} entries, which need {need} bytes: entries beyond the mapping are read/written outside it"),
        });
        let ring = s.rings.get_mut(&fd).unwrap();
        let region = match which {
            1 => &mut ring.cq_ring,
            _ => &mut ring.sqes,
        };
        region.state = RegionState::Mapped;
        let addr = region.ptr;
        ring.mappings.push(Mapping { which, addr: addr.addr(), len, mapped: true });
        return addr.cast();
    }
    region.state = RegionState::Mapped;
    let addr = region.ptr;
    ring.mappings.push(Mapping {
        which,
        addr: addr.addr(),
        len,
        mapped: true,
    });
    addr.cast()
}

unsafe fn k_munmap(addr: *mut c_void, len: usize) -> c_int {
    let mut g = k();
    let s = &mut *g;
    s.counters.munmaps += 1;
    let a = addr.addr();
    let mut found = false;
    let mut problem: Option<(String, String)> = None;
    for ring in s.rings.values_mut().chain(s.dead_rings.iter_mut()) {
        let fd = ring.fd;
        let inflight_open = !ring.dead;
        if let Some(m) = ring.mappings.iter_mut().find(|m| m.addr == a) {
            found = true;
            if !m.mapped {
                problem = Some((
                    "munmap-twice".into(),
                    format!("ring {fd} region {} unmapped twice", m.which),
                ));
                break;
            }
            if m.len != len {
                problem = Some((
                    format!("munmap-wrong-length:region={}", m.which),
                    format!("ring {fd} region {} mapped with len {} unmapped with len {len}", m.which, m.len),
                ));
            }
            m.mapped = false;
            let which = m.which;
            let _ = inflight_open;
            match which {
                0 => ring.sq_ring.unmap(),
                1 => {
                    // a10 can no longer look at completions.
                    for (_, req) in ring.state_watch.drain(..) {
                        alloc::release(req);
                    }
                    ring.cq_ring.unmap()
                }
                _ => ring.sqes.unmap(),
            }
            break;
        }
    }
    if !found {
        problem = Some((
            "munmap-unknown".into(),
            format!("munmap({a:#x}, {len}) of memory that is not a mapped ring region"),
        ));
    }
    if let Some((sig, detail)) = problem {
        let bad = sig.starts_with("munmap-unknown") || sig.starts_with("munmap-twice");
        s.violation("C12", sig, detail);
        if bad {
            set_errno(libc::EINVAL);
            return -1;
        }
    }
    0
}

// ---------------------------------------------------------------------------
// io_uring_register

unsafe fn k_register(fd: c_int, opcode: c_uint, arg: *const c_void, nr_args: c_uint) -> c_int {
    let mut g = k();
    let s = &mut *g;
    s.counters.registers += 1;
    s.register_log.push((fd, opcode, nr_args));
    if let Some(pos) = s.knobs.register_errno.iter().position(|(op, _)| *op == opcode) {
        let (_, e) = s.knobs.register_errno.remove(pos);
        set_errno(e);
        return -1;
    }
    let a = arg.cast::<u8>();
    if opcode == REGISTER_SEND_MSG_RING {
        if fd != -1 || nr_args != 1 {
            set_errno(libc::EINVAL);
            return -1;
        }
        let mut raw = [0u8; 64];
        unsafe { std::ptr::copy_nonoverlapping(a, raw.as_mut_ptr(), if cfg!(miri) { 56 } else { 64 }) };
        let sqe = Sqe(raw);
        if sqe.opcode() != OP_MSG_RING {
            set_errno(libc::EINVAL);
            return -1;
        }
        let r = enter::do_msg_ring(s, &sqe);
        if r < 0 {
            set_errno(-r);
            return -1;
        }
        return 0;
    }
    s.sync_fd_events();
    if !s.rings.contains_key(&fd) {
        set_errno(libc::EBADF);
        return -1;
    }
    let tid = thread_id();
    {
        let ring = s.rings.get_mut(&fd).unwrap();
        if ring.single_issuer() {
            if let Some(owner) = ring.owner_thread {
                if owner != tid {
                    set_errno(libc::EEXIST);
                    return -1;
                }
            }
        }
    }
    match opcode {
        REGISTER_ENABLE_RINGS => {
            let ring = s.rings.get_mut(&fd).unwrap();
            if !ring.disabled {
                set_errno(libc::EBADFD);
                return -1;
            }
            ring.disabled = false;
            if ring.single_issuer() && ring.owner_thread.is_none() {
                ring.owner_thread = Some(tid);
            }
            0
        }
        REGISTER_FILES2 => {
            if nr_args as usize != 32 {
                set_errno(libc::EINVAL);
                return -1;
            }
            let nr = unsafe { a.cast::<u32>().read_unaligned() };
            let flags = unsafe { a.add(4).cast::<u32>().read_unaligned() };
            let ring = s.rings.get_mut(&fd).unwrap();
            if ring.files.is_some() {
                set_errno(libc::EBUSY);
                return -1;
            }
            if nr == 0 || flags & RSRC_REGISTER_SPARSE == 0 {
                set_errno(libc::EINVAL);
                return -1;
            }
            if nr > 1 << 20 {
                set_errno(libc::EMFILE);
                return -1;
            }
            ring.files = Some(vec![None; nr as usize]);
            0
        }
        REGISTER_FILES_UPDATE => {
            let offset = unsafe { a.cast::<u32>().read_unaligned() };
            let fds_ptr = unsafe { a.add(8).cast::<u64>().read_unaligned() };
            let mut done = 0;
            for i in 0..nr_args {
                // Under Miri the array may be a promoted constant whose
                // provenance was never exposed; a10 only ever passes [-1].
                let v = if cfg!(miri) {
                    -1
                } else {
                    unsafe { mem::rd_i32(fds_ptr + 4 * u64::from(i)) }
                };
                let idx = (offset + i) as usize;
                let ring = s.rings.get_mut(&fd).unwrap();
                let Some(files) = ring.files.as_mut() else {
                    set_errno(libc::ENXIO);
                    return -1;
                };
                if idx >= files.len() {
                    set_errno(libc::EINVAL);
                    return -1;
                }
                if v == -1 {
                    match files[idx].take() {
                        Some(id) => {
                            s.counters.closes += 1;
                            effects::direct_closed(s, id, idx, "files-update");
                        }
                        None => {
                            // Removing an empty slot is not an error for the
                            // kernel, but a10 only does this to close a
                            // descriptor it owns.
                            s.violation(
                                "C07",
                                "direct-close-empty-slot:files-update",
                                format!("files update closes empty direct slot {idx}"),
                            );
                        }
                    }
                    done += 1;
                } else {
                    set_errno(libc::EINVAL);
                    return -1;
                }
            }
            done
        }
        REGISTER_PBUF_RING => {
            if nr_args != 1 {
                set_errno(libc::EINVAL);
                return -1;
            }
            let ring_addr = unsafe { a.cast::<u64>().read_unaligned() };
            let entries = unsafe { a.add(8).cast::<u32>().read_unaligned() };
            let bgid = unsafe { a.add(12).cast::<u16>().read_unaligned() };
            let flags = unsafe { a.add(14).cast::<u16>().read_unaligned() };
            if flags != 0 || entries == 0 || !entries.is_power_of_two() || entries > 32768 || ring_addr & 4095 != 0 {
                set_errno(libc::EINVAL);
                return -1;
            }
            if ring_addr == 0 {
                set_errno(libc::EFAULT);
                return -1;
            }
            let hold_id = s.next_req;
            s.next_req += 1;
            let ring = s.rings.get_mut(&fd).unwrap();
            if ring.pbufs.contains_key(&bgid) {
                set_errno(libc::EEXIST);
                return -1;
            }
            alloc::hold(
                ring_addr as usize,
                entries as usize * BUF_SIZE,
                hold_id,
                alloc::what::BUFRING,
            );
            ring.pbufs.insert(
                bgid,
                PbufRing {
                    ring_addr,
                    entries,
                    khead: 0,
                    seen_tail: 0,
                    handed_out: HashMap::new(),
                    layout: HashMap::new(),
                    hold_id,
                },
            );
            0
        }
        UNREGISTER_PBUF_RING => {
            let bgid = unsafe { a.add(12).cast::<u16>().read_unaligned() };
            let ring = s.rings.get_mut(&fd).unwrap();
            match ring.pbufs.remove(&bgid) {
                Some(p) => {
                    alloc::release(p.hold_id);
                    0
                }
                None => {
                    set_errno(libc::ENOENT);
                    -1
                }
            }
        }
        REGISTER_SYNC_CANCEL => {
            s.counters.sync_cancels += 1;
            let flags = unsafe { a.add(12).cast::<u32>().read_unaligned() };
            if flags & ASYNC_CANCEL_ANY == 0 {
                // Only the cancel-everything form is modelled.
                set_errno(libc::EINVAL);
                return -1;
            }
            let ids = s.inflight_of(fd);
            let mut normal = s.knobs.sync_cancel_normal;
            let mut cancelled = 0;
            for id in ids {
                let st = s.reqs[&id].state;
                if st == ReqState::AwaitNotif {
                    effects::post_notif(s, id);
                } else if normal > 0 {
                    normal -= 1;
                    effects::complete(s, id, 0, false);
                } else {
                    cancelled += 1;
                    effects::complete(s, id, -libc::ECANCELED, false);
                }
            }
            cancelled
        }
        _ => {
            set_errno(libc::EINVAL);
            -1
        }
    }
}
