//! io_uring ABI as used by the simulated kernel.
//!
//! Written from the io_uring uapi header (include/uapi/linux/io_uring.h), NOT
//! re-exported from a10's bindgen module: a wrong constant or field offset in
//! a10 must disagree with the checker instead of being mirrored by it.

#![allow(dead_code)]

// --- io_uring_params (120 bytes) ---
pub const P_SQ_ENTRIES: usize = 0;
pub const P_CQ_ENTRIES: usize = 4;
pub const P_FLAGS: usize = 8;
pub const P_SQ_THREAD_CPU: usize = 12;
pub const P_SQ_THREAD_IDLE: usize = 16;
pub const P_FEATURES: usize = 20;
pub const P_WQ_FD: usize = 24;
pub const P_RESV: usize = 28; // 3 x u32
pub const P_SQ_OFF: usize = 40; // head tail ring_mask ring_entries flags dropped array resv1 user_addr(u64)
pub const P_CQ_OFF: usize = 80; // head tail ring_mask ring_entries overflow cqes flags resv1 user_addr(u64)
pub const P_SIZE: usize = 120;

// --- setup flags ---
pub const SETUP_IOPOLL: u32 = 1 << 0;
pub const SETUP_SQPOLL: u32 = 1 << 1;
pub const SETUP_SQ_AFF: u32 = 1 << 2;
pub const SETUP_CQSIZE: u32 = 1 << 3;
pub const SETUP_CLAMP: u32 = 1 << 4;
pub const SETUP_ATTACH_WQ: u32 = 1 << 5;
pub const SETUP_R_DISABLED: u32 = 1 << 6;
pub const SETUP_SUBMIT_ALL: u32 = 1 << 7;
pub const SETUP_COOP_TASKRUN: u32 = 1 << 8;
pub const SETUP_TASKRUN_FLAG: u32 = 1 << 9;
pub const SETUP_SQE128: u32 = 1 << 10;
pub const SETUP_CQE32: u32 = 1 << 11;
pub const SETUP_SINGLE_ISSUER: u32 = 1 << 12;
pub const SETUP_DEFER_TASKRUN: u32 = 1 << 13;
pub const SETUP_NO_MMAP: u32 = 1 << 14;
pub const SETUP_REGISTERED_FD_ONLY: u32 = 1 << 15;
pub const SETUP_NO_SQARRAY: u32 = 1 << 16;
pub const SETUP_KNOWN: u32 = (1 << 20) - 1;

pub const MAX_ENTRIES: u32 = 32768;
pub const MAX_CQ_ENTRIES: u32 = 2 * MAX_ENTRIES;

// --- features ---
pub const FEAT_SINGLE_MMAP: u32 = 1 << 0;
pub const FEAT_NODROP: u32 = 1 << 1;
pub const FEAT_SUBMIT_STABLE: u32 = 1 << 2;
pub const FEAT_RW_CUR_POS: u32 = 1 << 3;
pub const FEAT_CUR_PERSONALITY: u32 = 1 << 4;
pub const FEAT_FAST_POLL: u32 = 1 << 5;
pub const FEAT_POLL_32BITS: u32 = 1 << 6;
pub const FEAT_SQPOLL_NONFIXED: u32 = 1 << 7;
pub const FEAT_EXT_ARG: u32 = 1 << 8;
pub const FEAT_NATIVE_WORKERS: u32 = 1 << 9;
pub const FEAT_RSRC_TAGS: u32 = 1 << 10;
pub const FEAT_CQE_SKIP: u32 = 1 << 11;
pub const FEAT_LINKED_FILE: u32 = 1 << 12;
pub const FEAT_REG_REG_RING: u32 = 1 << 13;
pub const FEAT_ALL: u32 = (1 << 18) - 1;

// --- mmap offsets ---
pub const OFF_SQ_RING: i64 = 0;
pub const OFF_CQ_RING: i64 = 0x800_0000;
pub const OFF_SQES: i64 = 0x1000_0000;

// --- SQE (64 bytes) ---
pub const SQE_SIZE: usize = 64;
pub const SQE_OPCODE: usize = 0; // u8
pub const SQE_FLAGS: usize = 1; // u8
pub const SQE_IOPRIO: usize = 2; // u16
pub const SQE_FD: usize = 4; // i32
pub const SQE_OFF: usize = 8; // u64 (off / addr2 / cmd_op+pad)
pub const SQE_ADDR: usize = 16; // u64 (addr / splice_off_in / level+optname)
pub const SQE_LEN: usize = 24; // u32
pub const SQE_OPFLAGS: usize = 28; // u32 (rw_flags, msg_flags, ...)
pub const SQE_USER_DATA: usize = 32; // u64
pub const SQE_BUF_GROUP: usize = 40; // u16 (buf_index / buf_group)
pub const SQE_PERSONALITY: usize = 42; // u16
pub const SQE_FILE_INDEX: usize = 44; // u32 (splice_fd_in / file_index / optlen / addr_len(u16))
pub const SQE_ADDR3: usize = 48; // u64 (addr3 / optval)

// --- sqe flags ---
pub const IOSQE_FIXED_FILE: u8 = 1 << 0;
pub const IOSQE_IO_DRAIN: u8 = 1 << 1;
pub const IOSQE_IO_LINK: u8 = 1 << 2;
pub const IOSQE_IO_HARDLINK: u8 = 1 << 3;
pub const IOSQE_ASYNC: u8 = 1 << 4;
pub const IOSQE_BUFFER_SELECT: u8 = 1 << 5;
pub const IOSQE_CQE_SKIP_SUCCESS: u8 = 1 << 6;

// --- CQE (16 bytes) ---
pub const CQE_SIZE: usize = 16;
pub const CQE_F_BUFFER: u32 = 1 << 0;
pub const CQE_F_MORE: u32 = 1 << 1;
pub const CQE_F_SOCK_NONEMPTY: u32 = 1 << 2;
pub const CQE_F_NOTIF: u32 = 1 << 3;
pub const CQE_F_BUF_MORE: u32 = 1 << 4;
pub const CQE_F_SKIP: u32 = 1 << 5;
pub const CQE_BUFFER_SHIFT: u32 = 16;

// --- sq ring flags ---
pub const SQ_NEED_WAKEUP: u32 = 1 << 0;
pub const SQ_CQ_OVERFLOW: u32 = 1 << 1;
pub const SQ_TASKRUN: u32 = 1 << 2;

// --- enter flags ---
pub const ENTER_GETEVENTS: u32 = 1 << 0;
pub const ENTER_SQ_WAKEUP: u32 = 1 << 1;
pub const ENTER_SQ_WAIT: u32 = 1 << 2;
pub const ENTER_EXT_ARG: u32 = 1 << 3;
pub const ENTER_REGISTERED_RING: u32 = 1 << 4;
pub const ENTER_ABS_TIMER: u32 = 1 << 5;
pub const ENTER_EXT_ARG_REG: u32 = 1 << 6;
pub const ENTER_NO_IOWAIT: u32 = 1 << 7;
pub const ENTER_KNOWN: u32 = (1 << 8) - 1;

// getevents_arg: sigmask u64 @0, sigmask_sz u32 @8, min_wait_usec u32 @12, ts u64 @16
pub const GETEVENTS_ARG_SIZE: usize = 24;
pub const GETEVENTS_ARG_TS: usize = 16;

// --- opcodes ---
pub const OP_NOP: u8 = 0;
pub const OP_READV: u8 = 1;
pub const OP_WRITEV: u8 = 2;
pub const OP_FSYNC: u8 = 3;
pub const OP_READ_FIXED: u8 = 4;
pub const OP_WRITE_FIXED: u8 = 5;
pub const OP_POLL_ADD: u8 = 6;
pub const OP_POLL_REMOVE: u8 = 7;
pub const OP_SYNC_FILE_RANGE: u8 = 8;
pub const OP_SENDMSG: u8 = 9;
pub const OP_RECVMSG: u8 = 10;
pub const OP_TIMEOUT: u8 = 11;
pub const OP_TIMEOUT_REMOVE: u8 = 12;
pub const OP_ACCEPT: u8 = 13;
pub const OP_ASYNC_CANCEL: u8 = 14;
pub const OP_LINK_TIMEOUT: u8 = 15;
pub const OP_CONNECT: u8 = 16;
pub const OP_FALLOCATE: u8 = 17;
pub const OP_OPENAT: u8 = 18;
pub const OP_CLOSE: u8 = 19;
pub const OP_FILES_UPDATE: u8 = 20;
pub const OP_STATX: u8 = 21;
pub const OP_READ: u8 = 22;
pub const OP_WRITE: u8 = 23;
pub const OP_FADVISE: u8 = 24;
pub const OP_MADVISE: u8 = 25;
pub const OP_SEND: u8 = 26;
pub const OP_RECV: u8 = 27;
pub const OP_OPENAT2: u8 = 28;
pub const OP_EPOLL_CTL: u8 = 29;
pub const OP_SPLICE: u8 = 30;
pub const OP_PROVIDE_BUFFERS: u8 = 31;
pub const OP_REMOVE_BUFFERS: u8 = 32;
pub const OP_TEE: u8 = 33;
pub const OP_SHUTDOWN: u8 = 34;
pub const OP_RENAMEAT: u8 = 35;
pub const OP_UNLINKAT: u8 = 36;
pub const OP_MKDIRAT: u8 = 37;
pub const OP_SYMLINKAT: u8 = 38;
pub const OP_LINKAT: u8 = 39;
pub const OP_MSG_RING: u8 = 40;
pub const OP_FSETXATTR: u8 = 41;
pub const OP_SETXATTR: u8 = 42;
pub const OP_FGETXATTR: u8 = 43;
pub const OP_GETXATTR: u8 = 44;
pub const OP_SOCKET: u8 = 45;
pub const OP_URING_CMD: u8 = 46;
pub const OP_SEND_ZC: u8 = 47;
pub const OP_SENDMSG_ZC: u8 = 48;
pub const OP_READ_MULTISHOT: u8 = 49;
pub const OP_WAITID: u8 = 50;
pub const OP_FUTEX_WAIT: u8 = 51;
pub const OP_FUTEX_WAKE: u8 = 52;
pub const OP_FUTEX_WAITV: u8 = 53;
pub const OP_FIXED_FD_INSTALL: u8 = 54;
pub const OP_FTRUNCATE: u8 = 55;
pub const OP_BIND: u8 = 56;
pub const OP_LISTEN: u8 = 57;
pub const OP_RECV_ZC: u8 = 58;
pub const OP_EPOLL_WAIT: u8 = 59;
pub const OP_READV_FIXED: u8 = 60;
pub const OP_WRITEV_FIXED: u8 = 61;
pub const OP_PIPE: u8 = 62;

pub fn op_name(op: u8) -> &'static str {
    match op {
        OP_NOP => "NOP",
        OP_READV => "READV",
        OP_WRITEV => "WRITEV",
        OP_FSYNC => "FSYNC",
        OP_POLL_ADD => "POLL_ADD",
        OP_POLL_REMOVE => "POLL_REMOVE",
        OP_SENDMSG => "SENDMSG",
        OP_RECVMSG => "RECVMSG",
        OP_ACCEPT => "ACCEPT",
        OP_ASYNC_CANCEL => "ASYNC_CANCEL",
        OP_CONNECT => "CONNECT",
        OP_FALLOCATE => "FALLOCATE",
        OP_OPENAT => "OPENAT",
        OP_CLOSE => "CLOSE",
        OP_FILES_UPDATE => "FILES_UPDATE",
        OP_STATX => "STATX",
        OP_READ => "READ",
        OP_WRITE => "WRITE",
        OP_FADVISE => "FADVISE",
        OP_MADVISE => "MADVISE",
        OP_SEND => "SEND",
        OP_RECV => "RECV",
        OP_SPLICE => "SPLICE",
        OP_SHUTDOWN => "SHUTDOWN",
        OP_RENAMEAT => "RENAMEAT",
        OP_UNLINKAT => "UNLINKAT",
        OP_MKDIRAT => "MKDIRAT",
        OP_MSG_RING => "MSG_RING",
        OP_SOCKET => "SOCKET",
        OP_URING_CMD => "URING_CMD",
        OP_SEND_ZC => "SEND_ZC",
        OP_SENDMSG_ZC => "SENDMSG_ZC",
        OP_READ_MULTISHOT => "READ_MULTISHOT",
        OP_WAITID => "WAITID",
        OP_FIXED_FD_INSTALL => "FIXED_FD_INSTALL",
        OP_FTRUNCATE => "FTRUNCATE",
        OP_BIND => "BIND",
        OP_LISTEN => "LISTEN",
        OP_PIPE => "PIPE",
        _ => "OTHER",
    }
}

// ioprio flags
pub const RECVSEND_POLL_FIRST: u16 = 1 << 0;
pub const RECV_MULTISHOT: u16 = 1 << 1;
pub const ACCEPT_MULTISHOT: u16 = 1 << 0;
pub const POLL_ADD_MULTI: u32 = 1 << 0;

// async cancel flags
pub const ASYNC_CANCEL_ALL: u32 = 1 << 0;
pub const ASYNC_CANCEL_FD: u32 = 1 << 1;
pub const ASYNC_CANCEL_ANY: u32 = 1 << 2;

pub const FILE_INDEX_ALLOC: u32 = 0xFFFF_FFFF;
pub const MSG_DATA: u64 = 0;

// socket uring cmd ops
pub const SOCKET_URING_OP_GETSOCKOPT: u32 = 2;
pub const SOCKET_URING_OP_SETSOCKOPT: u32 = 3;
pub const SOCKET_URING_OP_GETSOCKNAME: u32 = 5;

// --- register opcodes ---
pub const REGISTER_FILES_UPDATE: u32 = 6;
pub const REGISTER_ENABLE_RINGS: u32 = 12;
pub const REGISTER_FILES2: u32 = 13;
pub const REGISTER_PBUF_RING: u32 = 22;
pub const UNREGISTER_PBUF_RING: u32 = 23;
pub const REGISTER_SYNC_CANCEL: u32 = 24;
pub const REGISTER_SEND_MSG_RING: u32 = 31;

pub const RSRC_REGISTER_SPARSE: u32 = 1 << 0;

// io_uring_buf_reg: ring_addr u64 @0, ring_entries u32 @8, bgid u16 @12, flags u16 @14, resv 3xu64
// io_uring_buf: addr u64 @0, len u32 @8, bid u16 @12, resv u16 @14 (tail of ring in entry 0)
pub const BUF_SIZE: usize = 16;
pub const BUF_RING_TAIL: usize = 14;

// io_uring_rsrc_register: nr u32 @0, flags u32 @4, resv2 u64, data u64, tags u64 (32 bytes)
// io_uring_files_update: offset u32 @0, resv u32 @4, fds u64 @8
// io_uring_sync_cancel_reg: addr u64 @0, fd i32 @8, flags u32 @12, timeout {i64,i64} @16, opcode u8 @32

// struct msghdr (x86_64): msg_name *void @0, msg_namelen u32 @8, msg_iov * @16,
// msg_iovlen usize @24, msg_control * @32, msg_controllen usize @40, msg_flags i32 @48 (56 bytes)
pub const MSGHDR_SIZE: usize = 56;
// struct iovec: base * @0, len usize @8
pub const IOVEC_SIZE: usize = 16;
pub const STATX_SIZE: usize = 256;
pub const SIGINFO_SIZE: usize = 128;
