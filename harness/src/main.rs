#![allow(clippy::all)]
#![allow(static_mut_refs)]

mod mon;
mod ops;
mod out;
mod props;
mod rng;
mod sched;
mod simk;
mod world;

fn main() {
    let argv: Vec<String> = std::env::args().collect();
    if argv.len() < 2 {
        eprintln!("usage: harness <scenario> [--seed N] [--iters N] [--start N] [--tier quick|thorough] [--set k=v]...");
        std::process::exit(2);
    }
    let name = argv[1].clone();
    let mut args = props::Args { seed: 1, iters: 100, start: 0, tier: "quick".into(), params: Vec::new() };
    let mut i = 2;
    while i < argv.len() {
        let v = argv.get(i + 1).cloned().unwrap_or_default();
        match argv[i].as_str() {
            "--seed" => args.seed = v.parse().expect("seed"),
            "--iters" => args.iters = v.parse().expect("iters"),
            "--start" => args.start = v.parse().expect("start"),
            "--tier" => args.tier = v,
            "--set" => {
                let (k, val) = v.split_once('=').expect("k=v");
                args.params.push((k.to_string(), val.to_string()));
            }
            other => {
                eprintln!("unknown argument {other}");
                std::process::exit(2);
            }
        }
        i += 2;
    }
    mon::logsink::install();
    props::install_panic_hook();
    simk::install();
    sched::install_hooks();
    mon::waker::set_on_wake(Some(simk::enter::kernel_tick));
    // A panic anywhere is reported with the scenario position by the driver
    // (non-zero exit without a summary line).
    match props::run(&name, &args) {
        Some(rep) => {
            rep.print();
        }
        None => {
            eprintln!("unknown scenario {name}");
            std::process::exit(2);
        }
    }
}
