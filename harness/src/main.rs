#![allow(clippy::all)]
#![allow(static_mut_refs)]

mod mon;
mod rng;
mod sched;
mod simk;

use std::future::Future;
use std::pin::Pin;
use std::task::{Context, Poll};
use std::time::Duration;

fn main() {
    mon::logsink::install();
    simk::install();
    simk::reset(1);
    let mut ring = a10::Ring::config().with_submission_queue_size(4).build().expect("ring");
    let sq = ring.sq();
    let fd = mon::fds::issue("test");
    let afd = unsafe { a10::AsyncFd::from_raw_fd(fd, sq.clone()) };
    let (waker, ws) = mon::waker::new_waker();
    let mut cx = Context::from_waker(&waker);
    let mut fut = Box::pin(afd.read(Vec::with_capacity(100)));
    assert!(matches!(fut.as_mut().poll(&mut cx), Poll::Pending));
    ring.poll(Some(Duration::ZERO)).unwrap();
    let ids = simk::k().inflight();
    println!("inflight {:?}", ids);
    {
        let mut k = simk::k();
        simk::effects::complete(&mut k, ids[0], 10, false);
    }
    ring.poll(Some(Duration::ZERO)).unwrap();
    println!("wakes {}", ws.wakes());
    match fut.as_mut().poll(&mut cx) {
        Poll::Ready(Ok(buf)) => println!("read {:?}", buf),
        other => println!("unexpected {:?}", other.map(|r| r.map(|b| b.len()))),
    }
    drop(fut);
    drop(afd);
    drop(ring);
    drop(sq);
    let mut k = simk::k();
    k.sync_fd_events();
    println!("viol {:?} counters {:?}", k.take_violations(), k.counters);
    println!("open fds {:?} log {:?}", mon::fds::open_fds(), mon::logsink::take());
    println!("maps {:?}", k.mapping_leaks());
}
