#!/bin/bash
# Apply a mutation patch to /repo, run the given checks (quick tier), revert.
# Usage: mutate.sh <patch> <ID> [<ID>...]
set -u
PATCH=$(realpath "$1"); shift
cd /repo || exit 2
if [ -n "$(git status --porcelain --untracked-files=no)" ]; then echo "/repo not clean"; exit 2; fi
git apply "$PATCH" || { echo "patch does not apply"; exit 2; }
trap 'git -C /repo checkout -- . ' EXIT
for id in "$@"; do
  out=$(cd /verif && VERIF_EVIDENCE_DIR=/verif/out/mut-evidence ./check run "$id" --tier "${TIER:-quick}" 2>&1)
  rc=$?
  echo "== $id rc=$rc"
  echo "$out" | grep -E "^VIOLATION|^  sig=|^KNOWN|^INCONCLUSIVE|histories" | cut -c1-300 | head -12
done
