#!/usr/bin/env python3
"""recheck_seed.py <seed id> <property> [property...]
Re-runs checks against an already confirmed seeded change (/verif/seeded/<id>/patch.diff
applied to /repo, reverted afterwards) and updates its meta.json."""
import json, os, re, subprocess, sys
sid, props = sys.argv[1], sys.argv[2:]
out = "/verif/seeded/%s" % sid
meta = json.load(open(out + "/meta.json"))
assert subprocess.run(["git", "-C", "/repo", "status", "--porcelain", "--untracked-files=no"], stdout=subprocess.PIPE, text=True).stdout.strip() == "", "/repo not clean"
subprocess.run(["git", "-C", "/repo", "apply", out + "/patch.diff"], check=True)
try:
    for p in props:
        env = dict(os.environ, VERIF_EVIDENCE_DIR="/verif/out/mut-evidence")
        r = subprocess.run(["./check", "run", p, "--tier", os.environ.get("TIER", "quick")], cwd="/verif", env=env, stdout=subprocess.PIPE, stderr=subprocess.STDOUT, text=True)
        sigs = re.findall(r"^  sig=(.*)$", r.stdout, re.M)
        meta["checks"][p] = dict(exit=r.returncode, violation_sigs=sigs[:12], tail=r.stdout.strip().splitlines()[-1][:300])
        print(sid, p, r.returncode, sigs[:6])
finally:
    subprocess.run(["git", "-C", "/repo", "checkout", "--", "."], check=True)
meta["detected_by"] = [p for p, r in meta["checks"].items() if r["exit"] == 1]
json.dump(meta, open(out + "/meta.json", "w"), indent=1)
print("detected by:", meta["detected_by"])
