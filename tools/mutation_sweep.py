#!/usr/bin/env python3
"""Mutation sweep: how many small syntactic changes to a10 do the monitors notice?

Works on a scratch worktree of /repo and a scratch copy of the harness (never on
/repo or /verif/harness themselves):

    tools/mutation_sweep.py prepare            # creates /tmp/ms_repo (worktree) and /tmp/ms_harness
    tools/mutation_sweep.py run [--files a,b] [--limit N] [--out FILE]
    tools/mutation_sweep.py cleanup

For every candidate mutation (one operator applied at one place) the harness is
rebuilt against the mutated a10 and a battery of scenarios with small budgets is
run in parallel. A mutant is KILLED if any scenario reports a violation that is not
a known finding, crashes, or hangs; it SURVIVES if everything stays silent; it is
STILLBORN if it does not compile. Survivors are then run against the repository's own
test suite (tools/run_baseline.sh): the interesting ones pass that as well.

This is a measuring instrument for the checks, not a check: nothing it prints is a
verdict on a property.
"""
import concurrent.futures, json, os, re, shutil, subprocess, sys, time

REPO_WT = "/tmp/ms_repo"
HARNESS = "/tmp/ms_harness"
TARGET = HARNESS + "/target"
KNOWN = "/verif/KNOWN_FINDINGS.txt"

DEFAULT_FILES = [
    "src/io_uring/sq.rs", "src/io_uring/cq.rs", "src/io_uring/op.rs", "src/io_uring/io.rs", "src/io_uring/fd.rs",
    "src/io_uring/mod.rs", "src/io_uring/config.rs", "src/io/read_buf.rs", "src/io/traits.rs", "src/io/mod.rs",
    "src/lib.rs", "src/inotify/mod.rs", "src/net.rs", "src/fd.rs", "src/op.rs",
]

# (name, regex, replacement) applied to one match at a time.
OPERATORS = [
    ("ge->gt", r"(?<![<>=!-])>=(?!=)", ">"),
    ("gt->ge", r"(?<= )>(?= )", ">="),
    ("le->lt", r"(?<![<>=!])<=(?!=)", "<"),
    ("lt->le", r"(?<= )<(?= )", "<="),
    ("eq->ne", r"(?<![<>=!])==(?!=)", "!="),
    ("ne->eq", r"!=(?!=)", "=="),
    ("and->or", r"&&", "||"),
    ("or->and", r"\|\|", "&&"),
    ("plus1->plus0", r"\+ 1\b", "+ 0"),
    ("minus1->minus0", r"- 1\b", "- 0"),
    ("wadd->wsub", r"wrapping_add", "wrapping_sub"),
    ("wsub->wadd", r"wrapping_sub", "wrapping_add"),
    ("true->false", r"\btrue\b", "false"),
    ("false->true", r"\bfalse\b", "true"),
    ("not-removed", r"(?<![A-Za-z0-9_=!])!(?=[a-zA-Z_(])(?!\[)", ""),
    ("acquire->relaxed", r"Ordering::Acquire", "Ordering::Relaxed"),
    ("release->relaxed", r"Ordering::Release", "Ordering::Relaxed"),
    ("some->none-ret", r"\bSome\(waker\)", "None::<task::Waker>"),
    ("is_some->is_none", r"\.is_some\(\)", ".is_none()"),
    ("is_none->is_some", r"\.is_none\(\)", ".is_some()"),
    ("is_empty-negated", r"(?<!!)(\b[a-z_\.]+)\.is_empty\(\)", r"!\1.is_empty()"),
    ("min->max", r"\bmin\(", "max("),
    ("max->min", r"\bmax\(", "min("),
    ("and-mask-dropped", r" & \(([a-z_\.]+) - 1\)", r" & (\1 - 0)"),
    ("break->continue", r"\bbreak;", "continue;"),
    ("return-early-removed", r"^\s*return;\s*$", ""),
    ("unlock-removed", r"^\s*unlock\(([a-z_]+)\);\s*$", ""),
    ("or-assign->assign", r" \|= ", " = "),
    ("stmt-deleted", r"^\s*(?!let |return|break|continue|unlock|log::|debug_assert|assert|asan::|msan::|#)[a-z_][A-Za-z0-9_\.\(\)\*&]*( (\|=|=|\+=|-=) [^;{}]*| ?\([^;{}]*\)|\.[a-z_]+\([^;{}]*\));\s*$", ""),
]

SKIP_LINE = re.compile(r"^\s*(//|///|//!|#\[|use |pub use |mod |pub mod |log::|debug_assert|assert)")

BATTERY = [
    ("c01", 1200), ("c02", 1500), ("c03", 1500), ("c05", 1500), ("c06", 1200), ("c07", 1500), ("c08", 1500), ("c09", 1500),
    ("c04", 30), ("c08mt", 80), ("c11", 400), ("c06mt", 120), ("c10", 1200), ("c12", 47520), ("c15", 1500), ("c17", 1500),
    ("c18", 69300), ("c13abi", 1500), ("c14", 1), ("c16", 300), ("c13", 60), ("realmix", 300), ("c04real", 10), ("c11real", 6),
]


def sh(cmd, **kw):
    return subprocess.run(cmd, shell=isinstance(cmd, str), stdout=subprocess.PIPE, stderr=subprocess.STDOUT, text=True, **kw)


def known_sigs():
    out = set()
    for line in open(KNOWN):
        m = re.match(r"known: property=(\S+) sig=(\S+)", line)
        if m:
            out.add((m.group(1), m.group(2)))
    return out


def prepare():
    sh("git -C /repo worktree remove --force %s" % REPO_WT)
    r = sh("git -C /repo worktree add --detach %s HEAD" % REPO_WT)
    print(r.stdout[-300:])
    shutil.copy("/repo/Cargo.lock", REPO_WT + "/Cargo.lock") if os.path.exists("/repo/Cargo.lock") else None
    os.makedirs(HARNESS, exist_ok=True)
    sh("rsync -a --delete --exclude target /verif/harness/ %s/" % HARNESS)
    t = open(HARNESS + "/Cargo.toml").read().replace('path = "/repo"', 'path = "%s"' % REPO_WT)
    open(HARNESS + "/Cargo.toml", "w").write(t)
    print(build()[1][-300:])


def build():
    env = dict(os.environ, RUSTFLAGS="--cfg a10_verif", CARGO_TARGET_DIR=TARGET, CARGO_NET_OFFLINE="true")
    r = subprocess.run(["cargo", "build", "--offline"], cwd=HARNESS, env=env, stdout=subprocess.PIPE, stderr=subprocess.STDOUT, text=True)
    return r.returncode == 0, r.stdout


def candidates(files, per_line=1):
    out = []
    for f in files:
        path = os.path.join(REPO_WT, f)
        if not os.path.exists(path):
            continue
        lines = open(path).read().split("\n")
        in_test = False
        for i, line in enumerate(lines):
            if "#[cfg(test)]" in line or re.match(r"\s*mod tests?\b", line):
                in_test = True
            if in_test or SKIP_LINE.match(line) or "a10_verif" in line or "verif::" in line:
                continue
            code = line.split("//")[0]
            n = 0
            for name, rx, rep in OPERATORS:
                for m in re.finditer(rx, code):
                    # Generic parameters and arrows are not comparisons.
                    seg = code[max(0, m.start() - 2):m.end() + 2]
                    if name in ("gt->ge", "lt->le") and (re.search(r"[A-Za-z_:)>\]]<|<[A-Z&'(*\[]|->|=>|::<", code[max(0, m.start() - 12):m.end() + 12]) or "'" in seg):
                        continue
                    new = code[:m.start()] + m.expand(rep) + code[m.end():] + line[len(code):]
                    if new != line:
                        out.append(dict(file=f, line=i + 1, op=name, before=line.strip(), after=new.strip(), new_line=new))
                        n += 1
                        break
                if n >= per_line:
                    break
    return out


def run_battery(known):
    binary = TARGET + "/debug/a10-verif-harness"
    env = dict(os.environ, CARGO_NET_OFFLINE="true")

    def one(item):
        sc, iters = item
        args = [binary, sc, "--seed", "1", "--iters", str(iters)]
        if sc == "c16":
            args += ["--set", "real_every=20"]
        t0 = time.time()
        try:
            p = subprocess.run(args, cwd="/tmp", env=env, stdout=subprocess.PIPE, stderr=subprocess.PIPE, text=True, timeout=150)
        except subprocess.TimeoutExpired:
            return sc, "hang", time.time() - t0
        sigs = []
        summary = False
        for line in p.stdout.splitlines():
            if line.startswith('{"t":"viol"'):
                try:
                    v = json.loads(line)
                except ValueError:
                    continue
                if (v["prop"], v["sig"]) not in known:
                    sigs.append("%s:%s" % (v["prop"], v["sig"]))
            elif line.startswith('{"t":"summary"'):
                summary = True
        if sigs:
            return sc, "viol:" + sigs[0], time.time() - t0
        if not summary:
            return sc, "crash:rc=%s" % p.returncode, time.time() - t0
        return sc, None, time.time() - t0

    killed = []
    with concurrent.futures.ThreadPoolExecutor(max_workers=16) as ex:
        for sc, verdict, wall in ex.map(one, BATTERY):
            if verdict:
                killed.append((sc, verdict))
    return killed


def run(files, limit, out_path, start, per_line=1, skip=None):
    known = known_sigs()
    cands = candidates(files, per_line)
    if skip:
        done = set()
        for path in skip.split(","):
            for line in open(path):
                r = json.loads(line)
                done.add((r["file"], r["line"], r["op"]))
        cands = [c for c in cands if (c["file"], c["line"], c["op"]) not in done]
    print("%d candidate mutants in %d files" % (len(cands), len(files)))
    # Spread over the files instead of exhausting the first one.
    if limit and len(cands) > limit:
        step = len(cands) / float(limit)
        cands = [cands[int(i * step)] for i in range(limit)]
    cands = cands[start:]
    ok, msg = build()
    assert ok, msg[-800:]
    base = run_battery(known)
    assert not base, "battery is not silent on the unmutated tree: %r" % base
    out = open(out_path, "a")
    stats = dict(killed=0, survived=0, stillborn=0)
    for n, c in enumerate(cands):
        path = os.path.join(REPO_WT, c["file"])
        orig = open(path).read()
        lines = orig.split("\n")
        lines[c["line"] - 1] = c["new_line"]
        open(path, "w").write("\n".join(lines))
        try:
            ok, msg = build()
            if not ok:
                res = dict(outcome="stillborn")
            else:
                killed = run_battery(known)
                res = dict(outcome="killed" if killed else "survived", by=["%s=%s" % k for k in killed][:6])
        finally:
            open(path, "w").write(orig)
        stats[res["outcome"]] += 1
        rec = dict(c, **res)
        del rec["new_line"]
        out.write(json.dumps(rec) + "\n")
        out.flush()
        print("[%d/%d] %s:%d %s -> %s %s" % (n + 1, len(cands), c["file"], c["line"], c["op"], res["outcome"], ",".join(res.get("by", [])[:2])), flush=True)
    print(stats)


def main():
    if len(sys.argv) < 2:
        print(__doc__)
        return 2
    if sys.argv[1] == "prepare":
        prepare()
    elif sys.argv[1] == "cleanup":
        sh("git -C /repo worktree remove --force %s" % REPO_WT)
        sh("git -C /repo worktree prune")
        shutil.rmtree(HARNESS, ignore_errors=True)
    elif sys.argv[1] == "run":
        files, limit, out, start, per_line, skip = DEFAULT_FILES, 0, "/verif/out/mutation_sweep.jsonl", 0, 1, None
        a = sys.argv[2:]
        while a:
            if a[0] == "--files":
                files = a[1].split(",")
            elif a[0] == "--limit":
                limit = int(a[1])
            elif a[0] == "--out":
                out = a[1]
            elif a[0] == "--start":
                start = int(a[1])
            elif a[0] == "--per-line":
                per_line = int(a[1])
            elif a[0] == "--skip":
                skip = a[1]
            a = a[2:]
        run(files, limit, out, start, per_line, skip)
    return 0


if __name__ == "__main__":
    sys.exit(main())
