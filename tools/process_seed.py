#!/usr/bin/env python3
"""process_seed.py <agent worktree> <n> <seed id> <target property> [other properties...]
Verifies a sub-agent's seeded change independently (tools/verify_seed.sh), runs the
named checks against it (patch applied to /repo, reverted afterwards) and stores
everything under /verif/seeded/<seed id>/."""
import json, os, re, shutil, subprocess, sys
src, n, sid, target = sys.argv[1], sys.argv[2], sys.argv[3], sys.argv[4]
others = sys.argv[5:]
out = "/verif/seeded/%s" % sid
os.makedirs(out, exist_ok=True)
v = subprocess.run(["/verif/tools/verify_seed.sh", src, n, sid.lower()], stdout=subprocess.PIPE, stderr=subprocess.STDOUT, text=True).stdout
clean_ok = "clean rc=0" in v
suite_ok = "failures: 0" in v and "0 failed" in v
demo_fails = re.search(r"patched rc=(\d+)", v) and re.search(r"patched rc=(\d+)", v).group(1) != "0"
applies = "PATCH DOES NOT APPLY" not in v
print(v[-1500:])
print("clean_ok", clean_ok, "suite_ok", suite_ok, "demo_fails", bool(demo_fails), "applies", applies)
shutil.copy("%s/SEED_%s.diff" % (src, n), out + "/patch.diff")
demo = "%s/tests/seed_demo_%s.rs" % (src, n)
if not os.path.exists(demo):
    demo = "%s/SEED_DEMO_%s.rs" % (src, n)
shutil.copy(demo, out + "/demo.rs")
if os.path.exists(src + "/SEED_NOTES.md"):
    shutil.copy(src + "/SEED_NOTES.md", out + "/agent_notes.md")
results = {}
if applies and clean_ok and suite_ok and demo_fails:
    assert subprocess.run(["git", "-C", "/repo", "status", "--porcelain", "--untracked-files=no"], stdout=subprocess.PIPE, text=True).stdout.strip() == "", "/repo not clean"
    subprocess.run(["git", "-C", "/repo", "apply", out + "/patch.diff"], check=True)
    try:
        for p in [target] + others:
            env = dict(os.environ, VERIF_EVIDENCE_DIR="/verif/out/mut-evidence")
            r = subprocess.run(["./check", "run", p, "--tier", os.environ.get("TIER", "quick")], cwd="/verif", env=env, stdout=subprocess.PIPE, stderr=subprocess.STDOUT, text=True)
            sigs = re.findall(r"^  sig=(.*)$", r.stdout, re.M)
            results[p] = dict(exit=r.returncode, violation_sigs=sigs[:12], tail=r.stdout.strip().splitlines()[-1][:300])
            print(p, r.returncode, sigs[:6])
    finally:
        subprocess.run(["git", "-C", "/repo", "checkout", "--", "."], check=True)
meta = dict(
    id=sid, breaks_property=target, source="independent sub-agent (saw only the property text and a scratch worktree)",
    confirmed=dict(patch_applies=applies, demo_passes_on_clean_tree=clean_ok, pinned_suite_passes_with_patch=suite_ok, demo_fails_with_patch=bool(demo_fails)),
    demo_command="cargo test --offline --test seed_demo_%s (demo.rs copied to tests/seed_demo_%s.rs in a scratch worktree)" % (n, n),
    what_i_ran="tools/verify_seed.sh (fresh scratch worktree of /repo HEAD) then ./check run <ID> --tier quick with the patch applied to /repo, reverted afterwards",
    checks=results,
    detected_by=[p for p, r in results.items() if r["exit"] == 1],
)
json.dump(meta, open(out + "/meta.json", "w"), indent=1)
print("detected by:", meta["detected_by"])
