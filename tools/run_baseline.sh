#!/bin/bash
# Runs the pinned a10 suite with the verification guard OFF, one process per
# functional test (the in-process `cargo test` run can hang in this sandbox on
# the suite's shared test ring; see DESIGN.md §8). Usage: run_baseline.sh [repo]
set -u
REPO=${1:-/repo}
cd "$REPO" || exit 2
export CARGO_NET_OFFLINE=true
cargo test --workspace --no-run --offline >/dev/null 2>&1 || { echo "BUILD FAILED"; exit 2; }
B=$(ls -t target/debug/deps/functional-* | grep -v '\.d$' | head -1)
S=$(ls -t target/debug/deps/signals-* | grep -v '\.d$' | head -1)
fails=0
$B --list 2>/dev/null | grep ": test" | sed 's/: test//' > target/verif_tests.txt
n=$(wc -l < target/verif_tests.txt)
out=$(cat target/verif_tests.txt | xargs -P 8 -I{} sh -c "timeout -s KILL 60 $B --exact '{}' >/dev/null 2>&1 || echo FAIL '{}'")
[ -n "$out" ] && { echo "$out"; fails=$((fails + $(echo "$out" | wc -l))); }
sig=$(timeout -s KILL 300 $S 2>&1 | grep -E "^test result" )
echo "signals: $sig"
echo "$sig" | grep -q "0 failed" || fails=$((fails+1))
doc=$(timeout -s KILL 600 cargo test --doc --offline 2>&1 | grep -E "^test result")
echo "doctests: $doc"
echo "$doc" | grep -q "0 failed" || fails=$((fails+1))
echo "functional: $n tests, failures: $fails"
[ "$fails" -eq 0 ]
