#!/bin/bash
# usage: try_patch.sh <patch> <scenario> [iters] [extra harness args...]
# Applies a patch to /repo, rebuilds the native-debug harness, runs one scenario, reverts.
set -u
patch=$(readlink -f "$1"); scen=$2; iters=${3:-2000}; shift 3 || shift $#
git -C /repo apply "$patch" || exit 3
cd /verif/harness
CARGO_TARGET_DIR=/verif/out/target-native-debug RUSTFLAGS="--cfg a10_verif" cargo build --offline 2>&1 | grep -E "^error" -A16 | head -30
timeout 600 /verif/out/target-native-debug/debug/a10-verif-harness "$scen" --iters "$iters" --seed "${SEED:-1}" "$@" 2>&1 | python3 -c "
import sys,json,collections
c=collections.Counter(); ex={}
for l in sys.stdin:
    if not l.startswith('{'): print(l[:300]); continue
    v=json.loads(l)
    if v['t']=='viol': c[(v['prop'],v['sig'])]+=1; ex.setdefault((v['prop'],v['sig']),(v['index'],v['detail']))
    else: print('summary', v['evaluations'], v['distinct'])
for k,n in sorted(c.items()): print(n,k,'|',ex[k][0], ex[k][1][:300])
"
git -C /repo checkout -- .
git -C /repo status --short
