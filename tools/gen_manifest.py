#!/usr/bin/env python3
"""Regenerate /verif/MANIFEST.json from lib/plans.py (CLAIMS) and git history of /repo."""
import json, os, subprocess, sys
ROOT = os.path.dirname(os.path.dirname(os.path.abspath(__file__)))
sys.path.insert(0, os.path.join(ROOT, "lib"))
import plans

props = [json.loads(l) for l in open(os.path.join(ROOT, "properties.jsonl"))]
hooks = subprocess.run(["git", "-C", "/repo", "log", "--format=%h", "--grep=^verif hooks"], stdout=subprocess.PIPE, text=True).stdout.split()
checks, na = [], []
for p in props:
    pid = p["id"]
    c = plans.CLAIMS.get(pid)
    if c is None:
        na.append(dict(property_id=pid, reason=plans.NOT_CLAIMED.get(pid, "check not implemented yet (work in progress, see DESIGN.md)")))
        continue
    checks.append(dict(
        property_id=pid,
        quick_cmd="./check run %s --tier quick" % pid,
        thorough_cmd="./check run %s --tier thorough" % pid,
        evidence_file="/verif/evidence/%s.json" % pid,
        replay_cmd_template="./check replay {path}",
        engine=c["engine"],
        level_claimed=dict(category=c["level"], text=c["text"], design_ref=c["design_ref"]),
        level_note=c["note"],
        technique=c["technique"],
    ))
m = dict(
    version=1,
    setup_cmd="./check setup",
    hooks=dict(
        guard="--cfg a10_verif",
        enable="RUSTFLAGS=\"--cfg a10_verif\" cargo build --offline in /verif/harness (path dependency on /repo); done by ./check for every flavour",
        baseline_off_cmd="cd /repo && cargo test --workspace --no-fail-fast --offline",
        source_commits=list(reversed(hooks)),
        add_only=True,
    ),
    engines=plans.ENGINES,
    checks=checks,
    not_applicable=na,
    notes="Runtime monitoring and sanitizers only. See DESIGN.md. Known findings: KNOWN_FINDINGS.txt. /verif/tools/run_baseline.sh runs the pinned suite one process per test (the in-process run can hang in this sandbox on the suite's own shared test ring, also on the untouched tree).",
)
json.dump(m, open(os.path.join(ROOT, "MANIFEST.json"), "w"), indent=1)
print("claimed:", [c["property_id"] for c in checks], "not claimed:", [n["property_id"] for n in na])
