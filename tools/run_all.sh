#!/bin/bash
# Runs every check of one tier in sequence and prints one line per check.
# usage: tools/run_all.sh quick|thorough [IDs...]
tier=${1:-quick}; shift
ids=${@:-C01 C02 C03 C04 C05 C06 C07 C08 C09 C10 C11 C12 C13 C14 C15 C16 C17 C18}
cd "$(dirname "$0")/.."
for p in $ids; do
  s=$(date +%s)
  out=$(./check run $p --tier $tier 2>&1); rc=$?
  e=$(( $(date +%s) - s ))
  echo "== $p $tier rc=$rc ${e}s :: $(echo "$out" | grep -E "histories" | tail -1)"
  echo "$out" | grep -E "^VIOLATION|^  sig=|^INCONCLUSIVE|^NOTE flavour|^NOTE simk" | cut -c1-400 | head -20
done
