#!/bin/bash
# Independent confirmation of a seeded change: verify_seed.sh <agent worktree> <n> <tag>
# 1. fresh scratch worktree of /repo HEAD  2. demo passes on the clean tree
# 3. patch applies, builds (with and without the guard), pinned suite passes  4. demo fails with the patch
set -u
SRC=$1; N=$2; TAG=$3
W=/tmp/vs_$TAG
git -C /repo worktree remove --force $W >/dev/null 2>&1
git -C /repo worktree add -f $W HEAD -q || exit 2
cp /repo/Cargo.lock $W/
cp $SRC/tests/seed_demo_$N.rs $W/tests/ 2>/dev/null || cp $SRC/SEED_DEMO_$N.rs $W/tests/seed_demo_$N.rs
cd $W
export CARGO_NET_OFFLINE=true
echo "== demo on clean tree"
timeout 1800 cargo test --offline --test seed_demo_$N 2>&1 | grep -E "^test result|panicked|error\[|error:" | head -5
clean_rc=${PIPESTATUS[0]}
echo "clean rc=$clean_rc"
git apply $SRC/SEED_$N.diff || { echo "PATCH DOES NOT APPLY"; cd /; git -C /repo worktree remove --force $W; exit 3; }
echo "== build"
cargo build --offline 2>&1 | grep -E "^(warning|error)" | sort | uniq -c | head -5
RUSTFLAGS="--cfg a10_verif" cargo build --offline 2>&1 | grep -E "^error" | head -3
echo "== pinned suite with the patch"
/verif/tools/run_baseline.sh $W | tail -3
echo "== demo with the patch"
timeout 1800 cargo test --offline --test seed_demo_$N 2>&1 | grep -E "^test result|panicked|error\[|error:|signal" | head -6
echo "patched rc=${PIPESTATUS[0]}"
cd /
git -C /repo worktree remove --force $W
